//go:build verif

package main

// C20 (controller side) — concurrent delivery of service and pool events through the real
// Listener while pool counters are queried; built with -race; final state compared with a
// serial replay of the handlers in the order in which they took effect.

import (
	"fmt"
	"reflect"
	"sort"
	"sync"
	"testing"
	"time"

	"github.com/go-kit/log"
	"go.universe.tf/metallb/internal/allocator"
	"go.universe.tf/metallb/internal/config"
	"go.universe.tf/metallb/internal/k8s"
	"go.universe.tf/metallb/internal/k8s/controllers"
	"go.universe.tf/metallb/internal/verifcfg"
	vw "go.universe.tf/metallb/internal/verifworld"
	v1 "k8s.io/api/core/v1"
	discovery "k8s.io/api/discovery/v1"
	"pgregory.net/rapid"
)

type c20cOp struct {
	Svc    int        `json:"svc"`
	Delete bool       `json:"delete,omitempty"`
	Spec   vw.SvcSpec `json:"spec"`
}

type c20cCase struct {
	Ops     []c20cOp         `json:"ops"`
	Configs []vw.ClusterSpec `json:"configs"`
	Readers int              `json:"readers"`
	Yield   []int            `json:"yield"`
	// Workers: service events are delivered by this many goroutines; the events of one service stay on one of them, in
	// order (what a work queue guarantees per key). 0/1 = the production setting (one worker per reconciler).
	Workers int `json:"workers,omitempty"`
}

func c20cConfig(rt *rapid.T) vw.ClusterSpec {
	a := vw.PoolSpec{Name: "poolA", Addresses: []string{rapid.SampledFrom([]string{"10.0.0.0/30", "10.0.0.0/29", "10.0.0.0-10.0.0.2"}).Draw(rt, "poolA")}, AvoidBuggy: rapid.Bool().Draw(rt, "buggy")}
	b := vw.PoolSpec{Name: rapid.SampledFrom([]string{"poolB", "poolB", "poolBr"}).Draw(rt, "poolBname"), Addresses: []string{"10.0.1.2/31", "fc00::/126"}, AutoAssign: 2}
	return vw.ClusterSpec{Pools: []vw.PoolSpec{a, b}}
}

func genC20c(rt *rapid.T) c20cCase {
	c := c20cCase{Readers: rapid.IntRange(1, 2).Draw(rt, "readers")}
	for i, n := 0, rapid.IntRange(5, 30).Draw(rt, "nops"); i < n; i++ {
		k := rapid.IntRange(0, 3).Draw(rt, "svc")
		op := c20cOp{Svc: k, Delete: rapid.IntRange(0, 6).Draw(rt, "delete") == 0}
		sp := vw.SvcSpec{NS: "ns0", Name: fmt.Sprintf("svc%d", k), Ports: vw.GenPorts(rt), Families: []int{vw.FamilyV4}}
		vw.GenSharing(rt, &sp)
		switch rapid.IntRange(0, 5).Draw(rt, "req") {
		case 0:
			sp.Pool = rapid.SampledFrom([]string{"poolB", "poolBr"}).Draw(rt, "pool")
		case 1:
			sp.LBIP = rapid.SampledFrom([]string{"10.0.0.1", "10.0.0.2", "10.0.1.2"}).Draw(rt, "lbip")
		}
		if rapid.IntRange(0, 7).Draw(rt, "type") == 0 {
			sp.Type = vw.TypeClusterIP
		}
		op.Spec = sp
		c.Ops = append(c.Ops, op)
	}
	for i, n := 0, rapid.IntRange(1, 8).Draw(rt, "nconfigs"); i < n; i++ {
		c.Configs = append(c.Configs, c20cConfig(rt))
	}
	c.Yield = rapid.SliceOfN(rapid.IntRange(0, 3), 8, 8).Draw(rt, "yield")
	if rapid.IntRange(0, 2).Draw(rt, "twoWorkers") == 0 {
		c.Workers = 2
	}
	return c
}

type c20cWorld struct {
	h       *k8s.VerifHandlers // the handlers the real k8s.New hands to the reconcilers
	c       *controller
	lis     *k8s.Listener
	storeMu sync.Mutex            // the harness's API server: not part of the code under test
	specs   map[string]vw.SvcSpec // the spec each live service was last written with
	store   map[string]*v1.Service
	logMu   sync.Mutex
	log     []c20cEntry
	pools   []*config.Pools
	curP    int
	given   sync.Map              // *v1.Service handed to a handler -> the spec it was copied with
	seen    map[string]vw.SvcSpec // the spec the controller was last given for each service (under logMu); a delivery may carry a snapshot older than the store
}

type c20cEntry struct {
	Kind string
	Idx  int
	Key  string
	Svc  *v1.Service // S: the object the handler was given (nil = deleted)
}

func (e c20cEntry) String() string {
	if e.Kind == "S" && e.Svc != nil {
		var ports []string
		for _, p := range e.Svc.Spec.Ports {
			ports = append(ports, fmt.Sprintf("%s/%d", p.Protocol, p.Port))
		}
		return fmt.Sprintf("S:%s{type=%s share=%q%q ports=%v lbip=%q%q pool=%q status=%v}", e.Key, e.Svc.Spec.Type,
			e.Svc.Annotations["metallb.io/allow-shared-ip"], e.Svc.Annotations["metallb.universe.tf/allow-shared-ip"], ports,
			e.Svc.Spec.LoadBalancerIP, e.Svc.Annotations["metallb.io/loadBalancerIPs"], e.Svc.Annotations["metallb.io/address-pool"], vw.IngressIPs(e.Svc))
	}
	if e.Kind == "S" {
		return "S:" + e.Key + "{deleted}"
	}
	return fmt.Sprintf("%s%d%s", e.Kind, e.Idx, e.Key)
}

type c20cClient struct{ w *c20cWorld }

func (c20cClient) Infof(*v1.Service, string, string, ...interface{})  {}
func (c20cClient) Errorf(*v1.Service, string, string, ...interface{}) {}
func (f c20cClient) UpdateStatus(svc *v1.Service) error {
	// only ever called from inside the service handler, i.e. on the service goroutine
	f.w.storeMu.Lock()
	defer f.w.storeMu.Unlock()
	if o := f.w.store[svc.Namespace+"/"+svc.Name]; o != nil {
		// the write carries the status and the one annotation the controller owns. The handler's copy of the object
		// may be older than the store (another worker's update landed meanwhile): a real API server would answer
		// such a write with a conflict; writing the copy's annotations back wholesale would undo that update in the
		// store and leave an object that none of the writers ever wrote
		o.Status = *svc.Status.DeepCopy()
		if o.Annotations == nil {
			o.Annotations = map[string]string{}
		}
		for _, k := range []string{AnnotationIPAllocateFromPool, DeprecatedAnnotationIPAllocateFromPool} {
			if v, ok := svc.Annotations[k]; ok {
				o.Annotations[k] = v
			} else {
				delete(o.Annotations, k)
			}
		}
	}
	return nil
}

func newC20cWorld(c c20cCase) (*c20cWorld, error) {
	w := &c20cWorld{store: map[string]*v1.Service{}, specs: map[string]vw.SvcSpec{}, seen: map[string]vw.SvcSpec{}}
	w.c = &controller{ips: allocator.New(func(string) {})}
	w.c.client = c20cClient{w}
	for _, cl := range c.Configs {
		cfg, err := verifcfg.Config(cl, config.DontValidate)
		if err != nil {
			return nil, err
		}
		w.pools = append(w.pools, cfg.Pools)
	}
	w.lis = &k8s.Listener{
		ServiceChanged: func(l log.Logger, name string, svc *v1.Service, eps []discovery.EndpointSlice) controllers.SyncState {
			var snap *v1.Service
			if svc != nil {
				snap = svc.DeepCopy()
			}
			w.logf(c20cEntry{Kind: "S", Key: name, Svc: snap})
			w.logMu.Lock()
			if sp, ok := w.given.LoadAndDelete(svc); ok && svc != nil {
				w.seen[name] = sp.(vw.SvcSpec)
			} else if svc == nil {
				delete(w.seen, name)
			}
			w.logMu.Unlock()
			return w.c.SetBalancer(l, name, svc, eps)
		},
		PoolChanged: func(l log.Logger, p *config.Pools) controllers.SyncState {
			w.logf(c20cEntry{Kind: "P", Idx: w.curP})
			return w.c.SetPools(l, p)
		},
	}
	h, err := k8s.VerifWire(false)
	if err != nil {
		panic("verif-inconclusive: cannot wire k8s.New without an API server: " + err.Error())
	}
	w.h = h
	return w, nil
}

// activate routes the wired handlers to this world's controller.
func (w *c20cWorld) activate() {
	k8s.VerifSetCallbacks(k8s.Listener{ServiceChanged: w.lis.ServiceChanged, PoolChanged: w.lis.PoolChanged})
}

func (w *c20cWorld) logf(e c20cEntry) {
	w.logMu.Lock()
	w.log = append(w.log, e)
	w.logMu.Unlock()
}

func (w *c20cWorld) apply(op c20cOp, idx int) string {
	key := op.Spec.Key()
	w.storeMu.Lock()
	defer w.storeMu.Unlock()
	w.logf(c20cEntry{Kind: "U", Idx: idx})
	if op.Delete {
		delete(w.store, key)
		delete(w.specs, key)
		return key
	}
	w.specs[key] = op.Spec
	o := w.store[key]
	if o == nil {
		o = op.Spec.Object(op.Svc)
		w.store[key] = o
	} else {
		op.Spec.Apply(o, op.Svc)
	}
	return key
}

// deliver returns true if the handler asked for a full re-sync.
func (w *c20cWorld) deliver(key string) bool {
	var svc *v1.Service
	w.storeMu.Lock()
	if o := w.store[key]; o != nil {
		svc = o.DeepCopy()
		w.given.Store(svc, w.specs[key])
	}
	w.storeMu.Unlock()
	return w.h.Service(log.NewNopLogger(), key, svc, nil) == controllers.SyncStateReprocessAll
}

func (w *c20cWorld) resync() {
	for pass := 0; pass < 20; pass++ {
		var keys []string
		w.storeMu.Lock()
		n := map[string]int{}
		for k, o := range w.store {
			keys = append(keys, k)
			n[k] = len(o.Status.LoadBalancer.Ingress)
		}
		w.storeMu.Unlock()
		sort.Strings(keys)
		// as reprocessAll: services with more recorded addresses first
		sort.SliceStable(keys, func(i, j int) bool { return n[keys[i]] > n[keys[j]] })
		again := false
		for _, k := range keys {
			if w.deliver(k) {
				again = true
			}
		}
		if !again {
			return
		}
	}
}

func (w *c20cWorld) final() string {
	var keys []string
	for k := range w.store {
		keys = append(keys, k)
	}
	sort.Strings(keys)
	out := ""
	for _, k := range keys {
		out += fmt.Sprintf("%s status=%v mem=%v pool=%q | ", k, vw.IngressIPs(w.store[k]), w.c.ips.IPs(k), w.c.ips.Pool(k))
	}
	for _, p := range []string{"poolA", "poolB", "poolBr"} {
		out += fmt.Sprintf("%s=%+v ", p, w.c.ips.CountersForPool(p))
	}
	return out
}

func runC20c(c c20cCase, tr *vw.Trace) *vw.Violation {
	w, err := newC20cWorld(c)
	if err != nil {
		return nil
	}
	w.activate()
	reloadReq := make(chan struct{}, 1024)
	stop := make(chan struct{})
	svcDone := make(chan struct{})
	yield := func(i int) {
		for k := 0; k < c.Yield[i%len(c.Yield)]; k++ {
			time.Sleep(time.Microsecond)
		}
	}
	workers := c.Workers
	if workers < 1 {
		workers = 1
	}
	var swg sync.WaitGroup
	for wk := 0; wk < workers; wk++ {
		swg.Add(1)
		go func(wk int) {
			defer swg.Done()
			for i, op := range c.Ops {
				if op.Svc%workers != wk {
					continue
				}
				key := w.apply(op, i)
				if w.deliver(key) {
					w.logf(c20cEntry{Kind: "R"})
					w.resync()
				}
				yield(i)
				if wk == 0 {
					select {
					case <-reloadReq:
						w.logf(c20cEntry{Kind: "R"})
						w.resync()
					default:
					}
				}
			}
			if wk != 0 {
				return
			}
			for {
				select {
				case <-reloadReq:
					w.logf(c20cEntry{Kind: "R"})
					w.resync()
				case <-stop:
					for len(reloadReq) > 0 {
						<-reloadReq
						w.logf(c20cEntry{Kind: "R"})
						w.resync()
					}
					return
				}
			}
		}(wk)
	}
	go func() { swg.Wait(); close(svcDone) }()
	var wg sync.WaitGroup
	wg.Add(1)
	go func() {
		defer wg.Done()
		for i := range w.pools {
			w.curP = i
			if w.h.Pool(log.NewNopLogger(), w.pools[i]) == controllers.SyncStateReprocessAll {
				reloadReq <- struct{}{}
			}
			yield(i + 3)
		}
	}()
	var rwg sync.WaitGroup
	rstop := make(chan struct{})
	for r := 0; r < c.Readers; r++ {
		rwg.Add(1)
		go func() {
			defer rwg.Done()
			for n := 0; ; n++ {
				select {
				case <-rstop:
					return
				default:
				}
				// what the pool-status reconciler does; the values seen while a handler is half-way are not judged
				// (SetPools publishes counters of a pool before it has dropped the allocations that no longer fit)
				for _, p := range []string{"poolA", "poolB", "poolBr"} {
					_ = w.c.ips.CountersForPool(p)
				}
				if n%8 == 0 {
					time.Sleep(time.Microsecond)
				}
			}
		}()
	}
	done := make(chan struct{})
	go func() { wg.Wait(); close(stop); <-svcDone; close(done) }()
	select {
	case <-done:
	case <-time.After(60 * time.Second):
		panic("verif-inconclusive: watchdog: concurrent delivery did not finish within 60 s (deadlock?)")
	}
	close(rstop)
	rwg.Wait()
	for _, p := range []string{"poolA", "poolB", "poolBr"} {
		if ct := w.c.ips.CountersForPool(p); ct.AssignedIPv4 < 0 || ct.AssignedIPv6 < 0 || ct.AvailableIPv4 < 0 || ct.AvailableIPv6 < 0 {
			return vw.Violationf("negative-counter-at-rest", "after all handlers returned pool %s reports %+v", p, ct)
		}
	}
	// at rest no address may be held by two services that may not share it (allocator records and statuses), judged
	// by the spec the controller was last GIVEN for each service: a delivery carries the object as it was read, and
	// with two service workers a full pass of one worker can hand over a snapshot that the other worker's update
	// has already overtaken (the property speaks of the handlers run "in the order in which they took effect")
	mem, st := vw.Holders{}, vw.Holders{}
	for k, sp := range w.seen {
		if ips := w.c.ips.IPs(k); len(ips) > 0 {
			mem[k] = vw.HolderOf(sp, ipsToAddrs(ips), w.c.ips.Pool(k))
		}
		if o := w.store[k]; o != nil {
			if as := addrsOf(vw.IngressIPs(o)); len(as) > 0 {
				st[k] = vw.HolderOf(sp, as, "")
			}
		}
	}
	if len(mem) >= 2 {
		tr.Class("exclusivity-at-rest-judged-over->=2-holders")
	}
	if v := exclusive(mem, "allocator-after-concurrent-delivery"); v != nil {
		v.Detail += fmt.Sprintf("\neffect order: %v", w.log)
		return v
	}
	if v := exclusive(st, "statuses-after-concurrent-delivery"); v != nil {
		return v
	}
	got := w.final()
	// serial replay
	w2, _ := newC20cWorld(c)
	w2.activate()
	switches, last := 0, ""
	for _, e := range w.log {
		if (e.Kind == "P") != (last == "P") && last != "" {
			switches++
		}
		last = e.Kind
		switch e.Kind {
		case "U":
			w2.apply(c.Ops[e.Idx], e.Idx)
		case "S":
			var svc *v1.Service
			if e.Svc != nil {
				svc = e.Svc.DeepCopy()
			}
			w2.h.Service(log.NewNopLogger(), e.Key, svc, nil)
		case "P":
			w2.curP = e.Idx
			w2.h.Pool(log.NewNopLogger(), w2.pools[e.Idx])
		}
	}
	if switches > 2 {
		tr.Class("handlers-interleaved")
		tr.NonTrivial()
	}
	if workers > 1 {
		tr.Class("two-service-workers")
	}
	want := w2.final()
	if !reflect.DeepEqual(got, want) {
		return vw.Violationf("concurrent-differs-from-serial", "concurrent delivery ends in\n  %s\nserial replay in effect order ends in\n  %s\neffect order %v", got, want, w.log)
	}
	return nil
}

func TestVerifC20Controller(t *testing.T) {
	vw.Run(t, vw.Options{Property: "C20", Engine: "controller-concurrent",
		Rule:        "a service goroutine delivers 5..30 service events (4 services: ports, sharing keys, explicit pool / IP, type, deletion) and runs the re-syncs requested, a pool goroutine delivers 1..8 pool configurations (range changes, rename, buggy-address flag), 1..2 goroutines query CountersForPool; through the real Listener, built with -race; final statuses, allocator memory and counters compared with a serial replay in effect order; non-trivial = pool handlers interleaved with service handlers",
		Assumptions: []string{"workloads whose result is a function of the handler order: one auto-assign pool, explicit pools / addresses otherwise (Allocate iterates a map over unpinned pools)", "interleavings are produced by the Go scheduler, not enumerated"}},
		genC20c, runC20c)
}

// The same concurrent workloads decide C01 and C03 for concurrently delivering reconcilers: exclusivity at rest,
// and assignments that are a function of the order in which the handlers took effect (a service must not lose or
// change an address because a pool event ran inside its handler).
func TestVerifC01Concurrent(t *testing.T) {
	vw.Run(t, vw.Options{Property: "C01", Engine: "controller-concurrent",
		Rule:        "the concurrent workloads of C20 (service worker(s), pool worker, counter readers through the handlers wired by k8s.New, built with -race): no data race, at rest no address held by two services that may not share it (allocator records and statuses), final state equal to the serial replay in effect order; non-trivial = pool handlers interleaved with service handlers",
		Assumptions: []string{"interleavings are produced by the Go scheduler, not enumerated"}},
		genC20c, runC20c)
}

func TestVerifC03Concurrent(t *testing.T) {
	vw.Run(t, vw.Options{Property: "C03", Engine: "controller-concurrent",
		Rule:        "the concurrent workloads of C20: no data race and final statuses / allocator memory equal to the serial replay in effect order (a pool rename or re-grouping delivered while a service is being processed must not cost the service its address); non-trivial = pool handlers interleaved with service handlers",
		Assumptions: []string{"interleavings are produced by the Go scheduler, not enumerated"}},
		genC20c, runC20c)
}

func TestVerifC11Concurrent(t *testing.T) {
	vw.Run(t, vw.Options{Property: "C11", Engine: "controller-concurrent",
		Rule:        "the concurrent workloads of C20 (pools shrunk, removed and re-homed while services are created, deleted and re-synced, counters queried meanwhile): no data race, no negative counter at rest, allocator memory / counters / statuses equal to the serial replay in effect order; non-trivial = pool handlers interleaved with service handlers",
		Assumptions: []string{"interleavings are produced by the Go scheduler, not enumerated"}},
		genC20c, runC20c)
}
