//go:build verif

package main

// Controller histories (engine (b) of C01, C02, C11 and the engine of C03, C06, C07).
//
// The real ServiceReconciler and PoolReconciler (internal/k8s/controllers), the
// real k8s.Listener, controller.SetBalancer / SetPools, the allocator and
// config.For run over the harness's mini API server (verifworld.World). The
// harness owns the event loop: the pending-request set and the order in which
// requests are reconciled are part of the generated case, as are crash points,
// failing status writes and the service list order after a restart.

import (
	"context"
	"errors"
	"fmt"
	"net"
	"net/netip"
	"os"
	"reflect"
	"sort"
	"strings"
	"testing"

	"github.com/go-kit/log"
	"go.universe.tf/metallb/internal/allocator"
	"go.universe.tf/metallb/internal/config"
	"go.universe.tf/metallb/internal/k8s"
	"go.universe.tf/metallb/internal/k8s/controllers"
	"go.universe.tf/metallb/internal/verifcfg"
	vw "go.universe.tf/metallb/internal/verifworld"
	v1 "k8s.io/api/core/v1"
	discovery "k8s.io/api/discovery/v1"
	"k8s.io/apimachinery/pkg/types"
	"pgregory.net/rapid"
	ctrl "sigs.k8s.io/controller-runtime"
	"sigs.k8s.io/controller-runtime/pkg/event"
)

type ctrlOp struct {
	Kind     string          `json:"kind"`
	Svc      int             `json:"svc,omitempty"`
	Spec     *vw.SvcSpec     `json:"spec,omitempty"`
	Cluster  *vw.ClusterSpec `json:"cluster,omitempty"`
	Pick     int             `json:"pick,omitempty"`
	Fail     []bool          `json:"fail,omitempty"`
	ReadFail []bool          `json:"read_fail,omitempty"` // crash / failwrites: outcomes of the next Gets of a Service (true = the read fails)
	ListFail []bool          `json:"list_fail,omitempty"` // crash / failwrites: outcomes of the next Lists of Services
	Perm     []int           `json:"perm,omitempty"`
	Mode     string          `json:"mode,omitempty"`  // crash: between | before-write | after-write
	Early    []int           `json:"early,omitempty"` // crash: services whose events arrive before the first full sync
	PoolPos  int             `json:"pool_pos,omitempty"`
	Reset    bool            `json:"status_reset,omitempty"` // update to a non-LoadBalancer type: the API server also empties status.loadBalancer (as kube-apiserver does on a type change)
	Settle   bool            `json:"settle,omitempty"`       // crash: run the new instance to quiescence at once
}

type ctrlCase struct {
	Cluster vw.ClusterSpec `json:"cluster"`
	Ops     []ctrlOp       `json:"ops"`
	// IPModeDefault: the API server fills in status.loadBalancer.ingress[].ipMode = "VIP" for entries with an IP that
	// were written without one (what kube-apiserver does since the LoadBalancerIPMode feature is on by default, 1.30)
	IPModeDefault bool `json:"ipmode_default,omitempty"`
	// LBClass: the controller runs with --lb-class and every service carries that class
	LBClass bool `json:"lb_class,omitempty"`
}

type ctrlGenOpts struct {
	Crash, Faults, Sched bool
	MaxOps               int
}

var ctrlClusterOpts = vw.ClusterOpts{MinPools: 1, MaxPools: 4, MaxAtomsPerPool: 3, BigAtoms: false, Namespaces: 2, Alloc: true}

func poolNames(cl vw.ClusterSpec) []string {
	var out []string
	for _, p := range cl.Pools {
		out = append(out, p.Name)
	}
	return out
}

// genCtrlPoolEdit: configuration changes, biased towards those that keep addresses admissible.
func genCtrlPoolEdit(rt *rapid.T, cur vw.ClusterSpec) vw.ClusterSpec {
	n := vw.ClusterSpec{Namespaces: cur.Namespaces}
	for _, p := range cur.Pools {
		q := p
		q.Addresses = append([]string(nil), p.Addresses...)
		n.Pools = append(n.Pools, q)
	}
	if len(n.Pools) == 0 {
		n.Pools = vw.GenPools(rt, ctrlClusterOpts)
		return n
	}
	i := rapid.IntRange(0, len(n.Pools)-1).Draw(rt, "editPool")
	switch rapid.IntRange(0, 10).Draw(rt, "editK") {
	case 0, 1: // rename
		n.Pools[i].Name = n.Pools[i].Name + "r"
	case 2: // remove
		n.Pools = append(n.Pools[:i:i], n.Pools[i+1:]...)
	case 3: // shrink
		if len(n.Pools[i].Addresses) > 1 {
			j := rapid.IntRange(0, len(n.Pools[i].Addresses)-1).Draw(rt, "dropAddr")
			n.Pools[i].Addresses = append(n.Pools[i].Addresses[:j:j], n.Pools[i].Addresses[j+1:]...)
		}
	case 4: // split
		if len(n.Pools[i].Addresses) > 1 {
			blk := n.Pools[i].Addresses[0]
			n.Pools[i].Addresses = n.Pools[i].Addresses[1:]
			n.Pools = append(n.Pools, vw.PoolSpec{Name: fmt.Sprintf("split%d", len(n.Pools)), Addresses: []string{blk}, AvoidBuggy: n.Pools[i].AvoidBuggy})
		}
	case 5: // merge
		if len(n.Pools) > 1 {
			j := (i + 1) % len(n.Pools)
			n.Pools[i].Addresses = append(n.Pools[i].Addresses, n.Pools[j].Addresses...)
			n.Pools = append(n.Pools[:j:j], n.Pools[j+1:]...)
		}
	case 6:
		n.Pools[i].AvoidBuggy = !n.Pools[i].AvoidBuggy
	case 7:
		n.Pools[i].AutoAssign = rapid.IntRange(0, 2).Draw(rt, "auto")
	case 8:
		if n.Pools[i].Alloc == nil {
			n.Pools[i].Alloc = &vw.AllocSpec{Priority: rapid.IntRange(0, 3).Draw(rt, "prio"), Namespaces: []string{"ns0"}}
		} else {
			n.Pools[i].Alloc = nil
		}
	case 9:
		n.Pools = vw.GenPools(rt, ctrlClusterOpts)
	case 10:
		n.Namespaces = vw.GenNamespaces(rt, 2)
	}
	if len(n.Pools) == 0 && rapid.Bool().Draw(rt, "keepNoPools") {
		n.Pools = vw.GenPools(rt, ctrlClusterOpts) // otherwise: the last pool was deleted
	}
	return n
}

func genPerm(rt *rapid.T, n int, label string) []int {
	idx := make([]int, n)
	for i := range idx {
		idx[i] = i
	}
	if n < 2 {
		return idx
	}
	return rapid.Permutation(idx).Draw(rt, label)
}

func genCtrlCase(rt *rapid.T, o ctrlGenOpts) ctrlCase {
	c := ctrlCase{Cluster: vw.GenCluster(rt, ctrlClusterOpts), IPModeDefault: rapid.IntRange(0, 2).Draw(rt, "ipModeDefault") == 0, LBClass: rapid.IntRange(0, 3).Draw(rt, "lbClass") == 0}
	cur := c.Cluster
	var live []vw.SvcSpec
	next := 0
	if o.MaxOps == 0 {
		o.MaxOps = 30
	}
	nops := rapid.IntRange(3, o.MaxOps).Draw(rt, "nops")
	for i := 0; i < nops; i++ {
		k := rapid.IntRange(0, 31).Draw(rt, "opK")
		if len(live) < 2 && k > 5 && k < 20 {
			k = 0
		}
		op := ctrlOp{}
		switch {
		case k <= 7 && len(live) < 7:
			op.Kind = "create"
			s := vw.GenSvc(rt, next, 2, poolNames(cur))
			if len(live) > 0 && rapid.IntRange(0, 3).Draw(rt, "twin") == 0 {
				// a co-tenant in the making: same sharing key, policy, selector, families and namespace as an existing
				// service, other ports - the allocator will usually put both on one address
				if b := live[rapid.IntRange(0, len(live)-1).Draw(rt, "twinOf")]; b.Sharing != "" {
					s.NS, s.Labels, s.Sharing, s.ShareOld, s.Local, s.Selector = b.NS, b.Labels, b.Sharing, b.ShareOld, b.Local, b.Selector
					s.Families, s.Policy = append([]int(nil), b.Families...), b.Policy
					s.LBIP, s.LBIPs, s.Pool = "", "", ""
					s.Ports = vw.OtherPorts(b.Ports)
					if rapid.IntRange(0, 3).Draw(rt, "rival") == 0 {
						s.Ports = append([]vw.PortSpec(nil), b.Ports[:1]...) // a rival: fits the address but for one port
					}
				}
			}
			next++
			op.Spec = &s
			live = append(live, s)
		case k <= 12 && len(live) > 0:
			op.Kind = "update"
			op.Svc = rapid.IntRange(0, len(live)-1).Draw(rt, "svc")
			s := vw.MutateSvc(rt, live[op.Svc], 2, poolNames(cur))
			op.Spec = &s
			live[op.Svc] = s
			if s.Type != vw.TypeLoadBalancer {
				op.Reset = rapid.Bool().Draw(rt, "statusReset")
			}
		case k <= 15 && len(live) > 0:
			op.Kind = "delete"
			op.Svc = rapid.IntRange(0, len(live)-1).Draw(rt, "svc")
			live = append(live[:op.Svc:op.Svc], live[op.Svc+1:]...)
		case k <= 18:
			op.Kind = "pools"
			n := genCtrlPoolEdit(rt, cur)
			op.Cluster = &n
			cur = n
		case k <= 22:
			op.Kind = "settle"
		case k == 23:
			op.Kind = "resync"
		case k <= 25 && o.Sched:
			op.Kind = "step"
			op.Pick = rapid.IntRange(0, 7).Draw(rt, "pick")
		case k == 26 && o.Crash && o.Faults && len(cur.Pools) > 0 && len(live) > 1:
			// scenario: the configuration changes while the controller is down (recorded services need a
			// write after the restart), writes fail at first, and events race with the first passes
			n := genCtrlPoolEdit(rt, cur)
			renamedAll := false
			if rapid.Bool().Draw(rt, "macroRename") {
				renamedAll = true
				n = vw.ClusterSpec{Namespaces: cur.Namespaces}
				for _, p := range cur.Pools {
					q := p
					q.Name += "r"
					n.Pools = append(n.Pools, q)
				}
			}
			cur = n
			c.Ops = append(c.Ops, ctrlOp{Kind: "pools", Cluster: &n})
			cr := ctrlOp{Kind: "crash", Mode: "between", Perm: genPerm(rt, len(live), "crashPerm"), Fail: rapid.SliceOfN(rapid.Bool(), 1, 3).Draw(rt, "macroFail")}
			if rapid.Bool().Draw(rt, "macroListFail") {
				cr.ListFail = []bool{true}
			}
			c.Ops = append(c.Ops, cr)
			if renamedAll {
				// the users follow a rename while the controller is down: every other service pinned to a pool by
				// annotation now names the pool's new name (what the service records about its pool is stale)
				for u := range live {
					if live[u].Pool != "" && u%2 == 0 {
						sp := live[u]
						sp.Pool += "r"
						live[u] = sp
						c.Ops = append(c.Ops, ctrlOp{Kind: "update", Svc: u, Spec: &sp})
					}
				}
			}
			for j, m := 0, rapid.IntRange(1, 4).Draw(rt, "macroSteps"); j < m; j++ {
				if rapid.Bool().Draw(rt, "macroTouch") {
					u := rapid.IntRange(0, len(live)-1).Draw(rt, "macroSvc")
					sp := live[u] // an event without a spec change
					c.Ops = append(c.Ops, ctrlOp{Kind: "event", Svc: u, Spec: &sp})
				}
				c.Ops = append(c.Ops, ctrlOp{Kind: "step", Pick: rapid.IntRange(0, 7).Draw(rt, "macroPick")})
			}
			op.Kind = "settle"
		case k >= 30 && o.Faults && len(live) < 7:
			// scenario: the status write of a fresh choice fails and the service changes before the retry
			// (re-typed away from LoadBalancer, other request, other ports ...)
			sp := vw.GenSvc(rt, next, 2, poolNames(cur))
			sp.Type = vw.TypeLoadBalancer
			next++
			live = append(live, sp)
			c.Ops = append(c.Ops, ctrlOp{Kind: "settle"}, ctrlOp{Kind: "failwrites", Fail: []bool{true}}, ctrlOp{Kind: "create", Spec: &sp}, ctrlOp{Kind: "step", Pick: 0})
			ch := vw.MutateSvc(rt, sp, 2, poolNames(cur))
			if rapid.Bool().Draw(rt, "retype") {
				ch = sp
				ch.Type = vw.TypeClusterIP
			}
			live[len(live)-1] = ch
			c.Ops = append(c.Ops, ctrlOp{Kind: "update", Svc: len(live) - 1, Spec: &ch})
			op.Kind = "settle"
		case k <= 27 && o.Crash:
			op.Kind = "crash"
			op.Mode = rapid.SampledFrom([]string{"between", "before-write", "after-write"}).Draw(rt, "crashMode")
			op.Perm = genPerm(rt, len(live), "crashPerm")
			for j := range live {
				if rapid.IntRange(0, 2).Draw(rt, "early") == 0 {
					op.Early = append(op.Early, j)
				}
			}
			op.PoolPos = rapid.IntRange(0, len(op.Early)).Draw(rt, "poolPos")
			op.Settle = rapid.Bool().Draw(rt, "crashSettle")
			if o.Faults && rapid.IntRange(0, 2).Draw(rt, "crashFail") == 0 {
				op.Fail = rapid.SliceOfN(rapid.Bool(), 1, 4).Draw(rt, "failAfterRestart")
			}
			if o.Faults && rapid.IntRange(0, 2).Draw(rt, "crashReadFail") == 0 {
				op.ReadFail = rapid.SliceOfN(rapid.Bool(), 1, 3).Draw(rt, "readFailAfterRestart")
			}
			if o.Faults && rapid.IntRange(0, 2).Draw(rt, "crashListFail") == 0 {
				op.ListFail = rapid.SliceOfN(rapid.Bool(), 1, 2).Draw(rt, "listFailAfterRestart")
			}
		case k <= 29 && o.Faults:
			op.Kind = "failwrites"
			if fr := rapid.IntRange(0, 5).Draw(rt, "failReads"); fr == 0 {
				op.ReadFail = rapid.SliceOfN(rapid.Bool(), 1, 3).Draw(rt, "readFail")
			} else if fr == 1 {
				op.ListFail = rapid.SliceOfN(rapid.Bool(), 1, 2).Draw(rt, "listFail")
			} else {
				op.Fail = rapid.SliceOfN(rapid.Bool(), 1, 4).Draw(rt, "fail")
			}
		default:
			op.Kind = "settle"
		}
		c.Ops = append(c.Ops, op)
	}
	c.Ops = append(c.Ops, ctrlOp{Kind: "settle"})
	return c
}

// ---- simulator -------------------------------------------------------------

type crashSentinel struct{}

type judgeSet struct{ C01, C02, C03, C06, C07, C11, C18, Stab bool }

type quiescent struct {
	addrs map[string][]netip.Addr
	specs map[string]vw.SvcSpec
}

type sim struct {
	w             *vw.World
	cl            vw.ClusterSpec // CRs in the store
	ctrlCl        vw.ClusterSpec // CRs as of the last configuration the controller accepted
	hasCfg        bool
	specs         map[string]vw.SvcSpec
	idx           map[string]int
	order         []string
	ever          map[string]bool
	last          map[string]vw.SvcSpec // spec each service had when its handler last ran
	c             *controller
	lis           *k8s.Listener
	svcRec        *controllers.ServiceReconciler
	poolRec       *controllers.PoolReconciler
	reload        chan event.GenericEvent
	pending       []string
	writes        map[string]int
	fail          []bool
	readFail      []bool
	listFail      []bool
	crash         string
	tr            *vw.Trace
	j             judgeSet
	viol          *vw.Violation
	lastQ         *quiescent
	steps         int
	faulted       bool
	touched       map[string]bool // services whose spec was written since the last quiescence snapshot
	exempt        map[string]bool // victims of a listed known finding since the last quiescence snapshot
	restartOp     ctrlOp
	pendingBefore bool
	sinceRestart  map[string]bool         // services written / made inadmissible since the restart
	recR          map[string][]netip.Addr // during a restart: the statuses at the crash
	ipModeDefault bool
	poolCalls     int                 // PoolChanged invocations (a reconcile of an unchanged configuration must not reach the handler)
	cfgGen        int                 // number of configurations the controller accepted so far
	howGotGen     map[string]int      // cfgGen at the time howGot was recorded
	howGot        map[string]string   // how each service came to its current addresses (Allocate | AllocateFromPool | Assign | AddFamily)
	blame         map[string]bool     // during a restart: victim -> whoever held its recorded address when the victim's handler ran had a record itself
	thefts        map[string]bool     // during a restart: victim -> the service that took its recorded address had a record itself
	blameWho      map[string][]string // during a restart: victim -> the services that held its recorded addresses when it was handled
	gaveUp        map[string]bool     // during a restart: victim -> its recorded address was held by nobody when the configured controller handled it, and it was not taken back
	fewer         map[string]bool     // during a restart: victim -> when the victim was processed, a service with a record of FEWER addresses than the victim's held its address (the start-up order handles services with more recorded addresses first: the listed ordering defect cannot explain that)
}

func (s *sim) setViol(v *vw.Violation) {
	if s.viol == nil && v != nil {
		s.viol = v
	}
}

// fake of the controller's `service` interface (k8s.Client in production).
type fakeK8s struct{ s *sim }

func (f *fakeK8s) Infof(*v1.Service, string, string, ...interface{})  {}
func (f *fakeK8s) Errorf(*v1.Service, string, string, ...interface{}) {}

func (f *fakeK8s) UpdateStatus(svc *v1.Service) error {
	s := f.s
	key := svc.Namespace + "/" + svc.Name
	if len(s.fail) > 0 {
		failNow := s.fail[0]
		s.fail = s.fail[1:]
		if failNow {
			s.tr.Class("status-write-failed")
			s.faulted = true
			return errors.New("verif: injected status write failure")
		}
	}
	if s.crash == "before-write" {
		s.crash = ""
		s.tr.Class("crash-before-write")
		panic(crashSentinel{})
	}
	// the annotation written together with the status names the owning pool
	if s.j.C02 {
		ips := addrsOf(vw.IngressIPs(svc))
		ann, has := svc.Annotations[vw.AnnFromPool]
		if len(ips) > 0 {
			p := s.ctrlCl.PoolOf(ips)
			if p == nil || !has || ann != p.Name {
				pn := "<none>"
				if p != nil {
					pn = p.Name
				}
				s.setViol(vw.Violationf("pool-annotation-wrong", "status of %s written with addresses %v (owning pool %s) and annotation %q", key, ips, pn, ann))
			}
		} else if has {
			s.setViol(vw.Violationf("pool-annotation-stale", "status of %s written without address but with annotation %q", key, ann))
		}
	}
	obj := s.w.Service(svc.Namespace, svc.Name)
	if obj == nil {
		return errors.New("verif: service not found") // deleted meanwhile: the API server answers NotFound
	}
	before := obj.DeepCopy()
	obj.Status = *svc.Status.DeepCopy()
	if s.ipModeDefault && obj.Spec.Type == v1.ServiceTypeLoadBalancer {
		for i := range obj.Status.LoadBalancer.Ingress {
			if ing := &obj.Status.LoadBalancer.Ingress[i]; ing.IP != "" && ing.IPMode == nil {
				vip := v1.LoadBalancerIPModeVIP
				ing.IPMode = &vip
			}
		}
	}
	if svc.Annotations == nil {
		obj.Annotations = nil
	} else {
		obj.Annotations = map[string]string{}
		for k, v := range svc.Annotations {
			obj.Annotations[k] = v
		}
	}
	s.writes[key]++
	if !reflect.DeepEqual(before.Status, obj.Status) || !sameAnn(before.Annotations, obj.Annotations) {
		s.enqueue(key) // an update that leaves the stored object as it was produces no watch event
	}
	if s.crash == "after-write" {
		s.crash = ""
		s.tr.Class("crash-after-write")
		panic(crashSentinel{})
	}
	return nil
}

func sameAnn(a, b map[string]string) bool {
	if len(a) != len(b) {
		return false
	}
	for k, v := range a {
		if w, ok := b[k]; !ok || w != v {
			return false
		}
	}
	return true
}

func addrsOf(ss []string) []netip.Addr {
	var out []netip.Addr
	for _, x := range ss {
		a, err := netip.ParseAddr(x)
		if err != nil {
			out = append(out, netip.Addr{})
			continue
		}
		out = append(out, a.Unmap())
	}
	return out
}

func ipsToAddrs(ips []net.IP) []netip.Addr {
	var out []netip.Addr
	for _, ip := range ips {
		a, ok := netip.AddrFromSlice(ip)
		if !ok {
			out = append(out, netip.Addr{})
			continue
		}
		out = append(out, a.Unmap())
	}
	return out
}

func containsAddr(as []netip.Addr, a netip.Addr) bool {
	for _, x := range as {
		if x == a {
			return true
		}
	}
	return false
}

func addrSetKey(as []netip.Addr) string {
	var s []string
	for _, a := range as {
		s = append(s, a.String())
	}
	sort.Strings(s)
	return strings.Join(s, ",")
}

func newSim(cl vw.ClusterSpec, tr *vw.Trace, j judgeSet) *sim {
	s := &sim{w: vw.NewWorld(), specs: map[string]vw.SvcSpec{}, idx: map[string]int{}, ever: map[string]bool{}, last: map[string]vw.SvcSpec{},
		writes: map[string]int{}, tr: tr, j: j, touched: map[string]bool{}, exempt: map[string]bool{}}
	s.cl = cl
	s.w.SetCluster(cl)
	s.boot()
	s.enqueue("pool")
	return s
}

// boot creates a fresh controller process over the existing store.
func (s *sim) boot() {
	s.c = &controller{ips: allocator.New(func(string) {})}
	s.c.client = &fakeK8s{s}
	s.hasCfg = false
	s.w.ServiceReadFault = func(kind string) error {
		if kind == "slices" {
			return nil
		}
		q := &s.readFail
		if kind == "list" {
			q = &s.listFail
		}
		if len(*q) == 0 {
			return nil
		}
		f := (*q)[0]
		*q = (*q)[1:]
		if f {
			s.tr.Class("service-" + kind + "-failed")
			return errors.New("verif: injected read failure")
		}
		return nil
	}
	s.lis = &k8s.Listener{
		ServiceChanged: func(l log.Logger, name string, svc *v1.Service, eps []discovery.EndpointSlice) controllers.SyncState {
			pre := s.holders(name)
			preIPs := ipsToAddrs(s.c.ips.IPs(name))
			res := s.c.SetBalancer(l, name, svc, eps)
			if os.Getenv("VERIF_TRACE") != "" {
				fmt.Fprintf(os.Stderr, "      SetBalancer(%s, nil=%v) = %v mem=%v\n", name, svc == nil, res, s.c.ips.IPs(name))
			}
			s.afterService(name, svc, pre, preIPs)
			return res
		},
		PoolChanged: func(l log.Logger, pools *config.Pools) controllers.SyncState {
			s.poolCalls++
			res := s.c.SetPools(l, pools)
			s.ctrlCl = s.cl
			s.hasCfg = true
			s.cfgGen++
			// a service whose addresses are not admissible under a configuration the controller went
			// through is no innocent bystander for this settling period, even if a later edit restores them
			sh := s.statusHolders()
			for k := range s.specs {
				if as := s.status(k); len(as) > 0 && !s.admissible(k, as, sh) {
					s.touched[k] = true
					if s.sinceRestart != nil {
						s.sinceRestart[k] = true
					}
				}
			}
			return res
		},
	}
	s.reload = make(chan event.GenericEvent, 4096)
	s.svcRec = &controllers.ServiceReconciler{Client: s.w, Logger: log.NewNopLogger(), Handler: s.lis.ServiceHandler, Endpoints: false, Reload: s.reload, LoadBalancerClass: s.w.LBClass}
	s.poolRec = &controllers.PoolReconciler{Client: s.w, Logger: log.NewNopLogger(), Namespace: vw.MetalNS, Handler: s.lis.PoolHandler, ValidateConfig: config.DontValidate,
		ForceReload: func() { s.reload <- controllers.NewReloadEvent() }}
	s.pending = nil
}

func (s *sim) enqueue(req string) {
	for _, p := range s.pending {
		if p == req {
			return
		}
	}
	s.pending = append(s.pending, req)
}

// holders: what the allocator has recorded, with the sharing attributes each service had when last processed.
func (s *sim) holders(except string) vw.Holders {
	h := vw.Holders{}
	for k := range s.ever {
		if k == except {
			continue
		}
		ips := s.c.ips.IPs(k)
		if len(ips) == 0 {
			continue
		}
		h[k] = vw.HolderOf(s.last[k], ipsToAddrs(ips), s.c.ips.Pool(k))
	}
	return h
}

func exclusive(h vw.Holders, where string) *vw.Violation {
	keys := make([]string, 0, len(h))
	for k := range h {
		keys = append(keys, k)
	}
	sort.Strings(keys)
	by := map[netip.Addr][]vw.Holder{}
	for _, k := range keys {
		for _, a := range h[k].IPs {
			by[a] = append(by[a], h[k])
		}
	}
	for a, hs := range by {
		for i := range hs {
			for j := i + 1; j < len(hs); j++ {
				if !vw.MaySharePermissive(hs[i], hs[j]) {
					x, y := hs[i], hs[j]
					return vw.Violationf("address-held-twice-"+where, "%s: %s is held by %s (sharing=%q ports=%v local=%v selector=%v) and %s (sharing=%q ports=%v local=%v selector=%v) which may not share it",
						where, a, x.Key, x.Sharing, x.Ports, x.Local, x.Selector, y.Key, y.Sharing, y.Ports, y.Local, y.Selector)
				}
			}
		}
	}
	return nil
}

// desired parses the explicit address request of a spec the way the documentation describes it.
func desired(sp vw.SvcSpec) (ips []netip.Addr, valid bool) {
	if sp.LBIP == "" && sp.LBIPs == "" {
		return nil, true
	}
	if sp.LBIP != "" && sp.LBIPs != "" {
		return nil, false
	}
	str := sp.LBIPs
	if sp.LBIP != "" {
		str = sp.LBIP
	}
	for _, f := range strings.Split(str, ",") {
		a, err := netip.ParseAddr(strings.TrimSpace(f))
		if err != nil {
			return nil, false
		}
		ips = append(ips, a.Unmap())
	}
	return ips, true
}

func (s *sim) afterService(name string, svc *v1.Service, pre vw.Holders, preIPs []netip.Addr) {
	if svc != nil {
		s.last[name] = s.specs[name]
	}
	now := ipsToAddrs(s.c.ips.IPs(name))
	if s.recR != nil && svc != nil {
		// the service could not re-claim a recorded address: who holds it at this moment?
		if _, done := s.blame[name]; !done {
			rival, free := false, false
			for _, a := range s.recR[name] {
				if containsAddr(now, a) {
					continue
				}
				held := false
				for o := range s.ever {
					if o != name && containsAddr(ipsToAddrs(s.c.ips.IPs(o)), a) {
						held = true
						s.blame[name] = s.blame[name] || len(s.recR[o]) > 0
						s.blameWho[name] = append(s.blameWho[name], o)
						if n := len(s.recR[o]); n > 0 && n < len(s.recR[name]) {
							s.fewer[name] = true
						}
					}
				}
				rival = rival || held
				free = free || !held
			}
			if free && !rival && s.c.pools != nil && s.c.pools.ByName != nil {
				// nobody held any of the recorded addresses it lost when the (configured) controller handled the
				// service, and it still did not take them back although they were admissible for the service as it
				// was then, under the configuration the controller had then: that is no theft
				rh := vw.Holders{}
				for k, as := range s.recR {
					if sp, ok := s.specs[k]; ok && len(as) > 0 {
						rh[k] = vw.HolderOf(sp, as, "")
					}
				}
				if s.admissible(name, s.recR[name], rh) {
					s.gaveUp[name] = true
				}
			}
		}
	}
	if s.recR != nil {
		for _, a := range now {
			for o, as := range s.recR {
				if o == name {
					continue
				}
				for _, b := range as {
					if a == b && !containsAddr(ipsToAddrs(s.c.ips.IPs(o)), a) && !containsAddr(preIPs, a) {
						if had := len(s.recR[name]) > 0; had || !s.thefts[o] {
							s.thefts[o] = had
						}
					}
				}
			}
		}
	}
	all := s.holders("")
	shared := false
	for _, a := range now {
		if len(all.On(a, name)) > 0 {
			shared = true
		}
	}
	if shared {
		s.tr.Class("address-shared")
		s.tr.NonTrivial()
	}
	if s.j.C01 {
		s.setViol(exclusive(all, "allocator"))
	}
	if !s.j.C02 || svc == nil || len(now) == 0 || addrSetKey(now) == addrSetKey(preIPs) {
		return
	}
	sp := s.specs[name]
	how, had := "Allocate", false
	want, valid := desired(sp)
	recorded := addrsOf(vw.IngressIPs(svc))
	switch {
	case addrSetKey(now) == addrSetKey(recorded):
		how, had = "Assign", true // the recorded addresses were re-assigned (restart, re-sync)
	case sp.Need().Prefer && len(preIPs) == 1 && len(now) == 2 && (now[0] == preIPs[0] || now[1] == preIPs[0]):
		how, had = "AddFamily", true
	case sp.Need().Prefer && len(recorded) == 1 && len(now) == 2 && (now[0] == recorded[0] || now[1] == recorded[0]):
		how, had = "AddFamily", true
	case valid && len(want) > 0:
		how = "Assign"
		if addrSetKey(want) != addrSetKey(now) {
			s.setViol(vw.Violationf("explicit-request-not-honoured", "service %s requests %v but was given %v", name, want, now))
			return
		}
		s.tr.Class("explicit-ip-honoured")
	case sp.Pool != "":
		how = "AllocateFromPool"
		s.tr.Class("explicit-pool")
	}
	if s.howGot == nil {
		s.howGot, s.howGotGen = map[string]string{}, map[string]int{}
	}
	s.howGot[name], s.howGotGen[name] = how, s.cfgGen
	if v := vw.JudgeAssignment(s.ctrlCl, sp, now, pre, how, had, sp.Pool, s.tr); v != nil {
		if id := vw.KnownID("C02", v); id != "" {
			s.tr.Known(id)
			return
		}
		s.setViol(v)
		return
	}
	if how != "Assign" || !had {
		// a fresh choice must also match the family need exactly when an explicit IP list was given
		if valid && len(want) > 0 {
			n := sp.Need()
			if (n.Dual() && len(now) != 2) || (!n.Dual() && len(now) != 1) {
				s.setViol(vw.Violationf("explicit-request-family", "service %s (families %v) was given %v on explicit request", name, sp.Families, now))
			}
		}
	}
	if p := s.ctrlCl.PoolOf(now); p != nil && s.c.ips.Pool(name) != p.Name {
		s.setViol(vw.Violationf("pool-name-wrong", "Allocator.Pool(%s) = %q but %v belongs to %q", name, s.c.ips.Pool(name), now, p.Name))
	}
}

var reloadReq = ctrl.Request{NamespacedName: types.NamespacedName{Namespace: "metallbreload", Name: "reload"}}

// process reconciles one pending request; returns true if the controller "crashed".
func (s *sim) process(i int) (crashed bool) {
	req := s.pending[i]
	s.pending = append(s.pending[:i:i], s.pending[i+1:]...)
	s.steps++
	defer func() {
		if r := recover(); r != nil {
			if _, ok := r.(crashSentinel); ok {
				crashed = true
				return
			}
			panic(r)
		}
	}()
	var err error
	switch req {
	case "pool":
		_, err = s.poolRec.Reconcile(context.Background(), ctrl.Request{NamespacedName: types.NamespacedName{Namespace: vw.MetalNS, Name: "any"}})
	case "reload":
		_, err = s.svcRec.Reconcile(context.Background(), reloadReq)
	default:
		j := strings.IndexByte(req, '/')
		_, err = s.svcRec.Reconcile(context.Background(), ctrl.Request{NamespacedName: types.NamespacedName{Namespace: req[:j], Name: req[j+1:]}})
	}
	if err != nil {
		s.enqueue(req)
		s.tr.Class("request-retried")
	}
	s.drain()
	if os.Getenv("VERIF_TRACE") != "" {
		fmt.Fprintf(os.Stderr, "   processed %s err=%v -> pending=%v\n", req, err, s.pending)
	}
	return false
}

func (s *sim) drain() {
	for {
		select {
		case <-s.reload:
			s.enqueue("reload")
		default:
			return
		}
	}
}

const stepBudget = 400

// settle runs to quiescence; returns false if the controller crashed on the way.
func (s *sim) settle() bool {
	n := 0
	for len(s.pending) > 0 {
		if s.viol != nil {
			return true
		}
		n++
		if n > stepBudget {
			s.setViol(vw.Violationf("no-quiescence", "the controller still has pending work after %d reconciliations: %v", stepBudget, s.pending))
			return true
		}
		if s.process(0) {
			return false
		}
	}
	return true
}

// ---- world mutations -------------------------------------------------------

func (s *sim) liveKey(i int) (string, bool) {
	if len(s.order) == 0 {
		return "", false
	}
	return s.order[i%len(s.order)], true
}

func (s *sim) create(sp vw.SvcSpec) {
	k := sp.Key()
	if _, dup := s.specs[k]; dup {
		return
	}
	s.idx[k] = len(s.ever)
	s.ever[k] = true
	s.touched[k] = true
	s.specs[k] = sp
	s.order = append(s.order, k)
	obj := sp.Object(s.idx[k])
	s.w.Stamp(obj)
	s.w.Services = append(s.w.Services, obj)
	s.enqueue(k)
}

func (s *sim) update(i int, sp vw.SvcSpec) {
	k, ok := s.liveKey(i)
	if !ok {
		return
	}
	old := s.specs[k]
	sp.NS, sp.Name = old.NS, old.Name
	s.specs[k] = sp
	s.touched[k] = true
	if s.sinceRestart != nil {
		s.sinceRestart[k] = true
	}
	sp.Apply(s.w.ServiceByKey(k), s.idx[k])
	s.w.Stamp(s.w.ServiceByKey(k))
	s.enqueue(k)
}

func (s *sim) delete(i int) {
	k, ok := s.liveKey(i)
	if !ok {
		return
	}
	sp := s.specs[k]
	s.w.DeleteService(sp.NS, sp.Name)
	delete(s.specs, k)
	for j, x := range s.order {
		if x == k {
			s.order = append(s.order[:j:j], s.order[j+1:]...)
			break
		}
	}
	s.enqueue(k)
}

func (s *sim) setCluster(cl vw.ClusterSpec) {
	old := s.cl
	s.cl = cl
	s.w.SetCluster(cl)
	// the pool reconciler is only woken by the events its filter lets through: creations and deletions always,
	// updates of pools only when the generation moved (i.e. the spec changed), updates of namespaces only when
	// their labels changed
	wake := false
	oldPools := map[string]vw.PoolSpec{}
	for _, p := range old.Pools {
		oldPools[p.Name] = p
	}
	seen := map[string]bool{}
	for _, p := range cl.Pools {
		seen[p.Name] = true
		o, ok := oldPools[p.Name]
		if !ok {
			wake = true
			continue
		}
		ocr, ncr := o.CR(), p.CR()
		if reflect.DeepEqual(ocr.Spec, ncr.Spec) && reflect.DeepEqual(ocr.Labels, ncr.Labels) {
			continue // no write, no event
		}
		ocr.Generation, ncr.Generation = 1, 1
		if !reflect.DeepEqual(ocr.Spec, ncr.Spec) {
			ncr.Generation = 2
		}
		if controllers.VerifPoolUpdatePasses(&ocr, &ncr) {
			wake = true
		} else {
			s.tr.Class("pool-update-filtered")
		}
	}
	for n := range oldPools {
		if !seen[n] {
			wake = true
		}
	}
	oldNs := map[string]vw.NamespaceSpec{}
	for _, n := range old.Namespaces {
		oldNs[n.Name] = n
	}
	seenNs := map[string]bool{}
	for _, n := range cl.Namespaces {
		seenNs[n.Name] = true
		o, ok := oldNs[n.Name]
		if !ok {
			wake = true
			continue
		}
		ocr, ncr := o.CR(), n.CR()
		if reflect.DeepEqual(ocr.Labels, ncr.Labels) {
			continue
		}
		if controllers.VerifPoolUpdatePasses(&ocr, &ncr) {
			wake = true
		} else {
			s.tr.Class("namespace-update-filtered")
		}
	}
	for n := range oldNs {
		if !seenNs[n] {
			wake = true
		}
	}
	if wake {
		s.enqueue("pool")
	}
}

func (s *sim) status(k string) []netip.Addr {
	return addrsOf(vw.IngressIPs(s.w.ServiceByKey(k)))
}

// ---- quiescence oracles ----------------------------------------------------

// statusHolders: the addresses written to the Service statuses, with the current specs.
func (s *sim) statusHolders() vw.Holders {
	h := vw.Holders{}
	for k, sp := range s.specs {
		ips := s.status(k)
		if len(ips) == 0 {
			continue
		}
		pn := ""
		if p := s.ctrlCl.PoolOf(ips); p != nil {
			pn = p.Name
		}
		h[k] = vw.HolderOf(sp, ips, pn)
	}
	return h
}

// familyFits: do the addresses match what the service's cluster IP families call for?
func familyFits(sp vw.SvcSpec, as []netip.Addr) bool {
	n := sp.Need()
	h4, h6 := 0, 0
	for _, a := range as {
		if a.Is4() {
			h4++
		} else {
			h6++
		}
	}
	switch {
	case n.Dual() && n.Prefer:
		return h4 <= 1 && h6 <= 1 && h4+h6 >= 1
	case n.Dual():
		return h4 == 1 && h6 == 1
	case n.V4:
		return h4 == 1 && h6 == 0
	default:
		return h6 == 1 && h4 == 0
	}
}

// admissible: may service k (current spec) hold exactly `as` under the current CRs, given the
// co-tenants in `others` (who held the same addresses)?
func (s *sim) admissible(k string, as []netip.Addr, others vw.Holders) bool {
	sp, ok := s.specs[k]
	if !ok || sp.Type != vw.TypeLoadBalancer || len(as) == 0 {
		return false
	}
	p := s.ctrlCl.PoolOf(as)
	if p == nil || !s.ctrlCl.Admits(*p, sp) || s.ctrlCl.NsSelMatchesNothing(*p) {
		return false
	}
	if !familyFits(sp, as) {
		return false
	}
	want, valid := desired(sp)
	if !valid {
		return false
	}
	if len(want) > 0 && addrSetKey(want) != addrSetKey(as) {
		return false
	}
	if n := sp.Need(); len(want) > 0 && n.Dual() && len(want) != 2 {
		return false // the controller refuses an address request that does not name one address per cluster IP family
	}
	if sp.Pool != "" && sp.Pool != p.Name {
		return false
	}
	me := vw.HolderOf(sp, as, p.Name)
	for _, a := range as {
		for _, o := range others.On(a, k) {
			cur, alive := s.specs[o.Key]
			if !alive {
				continue
			}
			if !vw.MayShareStrict(vw.HolderOf(cur, o.IPs, o.Pool), me) {
				return false
			}
		}
	}
	return true
}

// search: is there an admissible assignment for the pending service k? Returns a witness.
func (s *sim) search(k string, h vw.Holders) (string, bool) {
	sp := s.specs[k]
	cand := vw.HolderOf(sp, nil, "")
	n := sp.Need()
	want, valid := desired(sp)
	if !valid {
		return "", false
	}
	usable := func(p vw.PoolSpec) bool { return s.ctrlCl.Admits(p, sp) && !s.ctrlCl.NsSelMatchesNothing(p) }
	if len(want) > 0 {
		p := s.ctrlCl.PoolOf(want)
		if p == nil || !usable(*p) || (sp.Pool != "" && sp.Pool != p.Name) {
			return "", false
		}
		// the request must name exactly one address per cluster IP family
		h4, h6 := 0, 0
		for _, a := range want {
			if a.Is4() {
				h4++
			} else {
				h6++
			}
		}
		if !((n.Dual() && h4 == 1 && h6 == 1) || (!n.Dual() && n.V4 && h4 == 1 && h6 == 0) || (!n.Dual() && n.V6 && h6 == 1 && h4 == 0)) {
			return "", false
		}
		for _, a := range want {
			if !h.Available(a, cand) {
				return "", false
			}
		}
		return fmt.Sprintf("requested %v (pool %s)", want, p.Name), true
	}
	try := func(p vw.PoolSpec) (string, bool) {
		full, partial := h.Satisfiable(p, cand, n)
		if full || partial {
			v4, v6 := h.Supply(p, cand)
			return fmt.Sprintf("pool %s offers v4=%v v6=%v", p.Name, v4, v6), true
		}
		return "", false
	}
	if sp.Pool != "" {
		p := s.ctrlCl.Pool(sp.Pool)
		if p == nil || !usable(*p) {
			return "", false
		}
		return try(*p)
	}
	for _, p := range s.ctrlCl.Pools {
		if !p.Auto() || !usable(p) {
			continue
		}
		if w, ok := try(p); ok {
			return w, true
		}
	}
	return "", false
}

func (s *sim) atQuiescence(label string) {
	s.restartJudge()
	if s.viol != nil || !s.hasCfg {
		return
	}
	// the configuration the controller runs with must be the one in the store, if that one is valid: a change that
	// no reconcile picked up (an event filtered away, a reconcile that remembered the wrong thing) leaves it stale
	if want, err := verifcfg.Config(s.cl, config.DontValidate); err == nil {
		if have, err2 := verifcfg.Config(s.ctrlCl, config.DontValidate); err2 == nil && !reflect.DeepEqual(want.Pools, have.Pools) {
			s.setViol(vw.Violationf("configuration-not-delivered", "%s: nothing is pending, the store holds a valid pool configuration and the controller still runs with a different one (store: %+v, controller: %+v)", label, s.cl.Pools, s.ctrlCl.Pools))
			return
		}
	}
	sh := s.statusHolders()
	if s.j.C01 {
		s.setViol(exclusive(sh, "statuses"))
	}
	if s.j.C02 {
		for k, sp := range s.specs {
			ips := s.status(k)
			if len(ips) == 0 {
				continue
			}
			p := s.ctrlCl.PoolOf(ips)
			if p == nil {
				s.setViol(vw.Violationf("status-outside-pools", "%s: at quiescence %s has status %v which is not inside one configured pool", label, k, ips))
				return
			}
			if !s.ctrlCl.Admits(*p, sp) {
				v := vw.Violationf("status-pool-does-not-admit", "%s: at quiescence %s (ns %s, labels %v) holds %v of pool %s which does not admit it", label, k, sp.NS, sp.Labels, ips, p.Name)
				if s.ctrlCl.NsSelMatchesNothing(*p) {
					// same identification as in JudgeAssignment: an address the service already held at the last
					// quiescence is a re-claim, otherwise what the handler did when the addresses were recorded
					path := "explicit-request-or-reclaim"
					// (also a re-claim: addresses obtained under an earlier configuration and kept across the change)
					kept := (s.lastQ != nil && addrSetKey(s.lastQ.addrs[k]) == addrSetKey(ips)) || s.howGotGen[k] != s.cfgGen
					if !kept && s.howGot[k] == "Allocate" {
						path = "automatic-without-service-selectors"
						if p.Alloc != nil && len(p.Alloc.SvcSel) > 0 {
							path = "automatic-via-service-selectors"
						}
					}
					v.Sig = "pool-does-not-admit:namespace-selectors-match-no-namespace:" + path
				}
				if id := vw.KnownID("C02", v); id != "" {
					s.tr.Known(id)
					continue
				}
				s.setViol(v)
				return
			}
			if !familyFits(sp, ips) {
				s.setViol(vw.Violationf("status-family", "%s: at quiescence %s (families %v, policy %d) holds %v", label, k, sp.Families, sp.Policy, ips).
					WithSig(fmt.Sprintf("status-family:single-clusterip-prefer=%v", len(sp.Families) == 1 && sp.Policy == vw.PolicyPrefer)))
				return
			}
			want, valid := desired(sp)
			if valid && len(want) > 0 && addrSetKey(want) != addrSetKey(ips) {
				s.setViol(vw.Violationf("status-differs-from-request", "%s: at quiescence %s requests %v but holds %v", label, k, want, ips))
				return
			}
			if sp.Pool != "" && p.Name != sp.Pool {
				s.setViol(vw.Violationf("status-not-from-requested-pool", "%s: at quiescence %s requests pool %s but holds %v of pool %s", label, k, sp.Pool, ips, p.Name))
				return
			}
			if ann := s.w.ServiceByKey(k).Annotations[vw.AnnFromPool]; ann != p.Name {
				v := vw.Violationf("annotation-differs", "%s: at quiescence %s holds %v of pool %s but is annotated %q (request valid: %v)", label, k, ips, p.Name, ann, valid)
				if !valid {
					v.Sig = "annotation-stale:service-with-invalid-address-request-after-pool-rename"
				}
				if id := vw.KnownID("C02", v); id != "" {
					s.tr.Known(id)
					continue
				}
				s.setViol(v)
				return
			}
		}
	}
	if s.j.C06 || s.j.C11 {
		// the controller's memory equals the statuses, for every service that ever existed
		use4, use6 := map[string]map[netip.Addr]bool{}, map[string]map[netip.Addr]bool{}
		for k := range s.ever {
			mem := ipsToAddrs(s.c.ips.IPs(k))
			var st []netip.Addr
			if _, alive := s.specs[k]; alive {
				st = s.status(k)
			}
			if addrSetKey(mem) != addrSetKey(st) {
				s.setViol(vw.Violationf("memory-differs-from-status", "%s: at quiescence the allocator remembers %v for %s, its status says %v", label, mem, k, st))
				return
			}
			if len(st) > 0 {
				pn := s.c.ips.Pool(k)
				for _, a := range st {
					m := use6
					if a.Is4() {
						m = use4
					}
					if m[pn] == nil {
						m[pn] = map[netip.Addr]bool{}
					}
					m[pn][a] = true
				}
			}
		}
		for _, p := range s.ctrlCl.Pools {
			c := s.c.ips.CountersForPool(p.Name)
			if c.AssignedIPv4 != int64(len(use4[p.Name])) || c.AssignedIPv6 != int64(len(use6[p.Name])) {
				s.setViol(vw.Violationf("counters-differ-from-statuses", "%s: pool %s reports %d/%d assigned, statuses hold %d/%d distinct addresses", label, p.Name, c.AssignedIPv4, c.AssignedIPv6, len(use4[p.Name]), len(use6[p.Name])))
				return
			}
			if c.AvailableIPv4 < 0 || c.AvailableIPv6 < 0 {
				s.setViol(vw.Violationf("counter-negative", "%s: pool %s reports %+v", label, p.Name, c))
				return
			}
		}
	}
	if s.j.C07 {
		keys := append([]string(nil), s.order...)
		sort.Strings(keys)
		for _, k := range keys {
			sp := s.specs[k]
			if sp.Type != vw.TypeLoadBalancer || len(s.status(k)) > 0 {
				continue
			}
			s.tr.Class("pending-service-at-quiescence")
			s.tr.NonTrivial()
			if w, ok := s.search(k, sh); ok {
				s.setViol(vw.Violationf("starved", "%s: at quiescence %s (families %v policy %d sharing %q ports %v) has no address although an admissible assignment exists: %s; statuses: %v", label, k, sp.Families, sp.Policy, sp.Sharing, sp.Ports, w, fmtHolders(sh)).
					WithSig(s.starveSig(k)))
				return
			}
		}
	}
	if (s.j.C03 || s.j.Stab) && s.lastQ != nil {
		for k, prev := range s.lastQ.addrs {
			sp, alive := s.specs[k]
			if !alive || len(prev) == 0 || s.touched[k] || s.exempt[k] || !reflect.DeepEqual(sp, s.lastQ.specs[k]) {
				continue
			}
			others := vw.Holders{}
			for o, as := range s.lastQ.addrs {
				if o != k && len(as) > 0 {
					others[o] = vw.HolderOf(s.lastQ.specs[o], as, "")
				}
			}
			if !s.admissible(k, prev, others) {
				s.tr.Class("previous-addresses-no-longer-admissible")
				continue
			}
			s.tr.Class("innocent-bystander-checked")
			now := s.status(k)
			if addrSetKey(now) == addrSetKey(prev) {
				continue
			}
			if n := sp.Need(); n.Dual() && n.Prefer && len(prev) == 1 && len(now) == 2 && (now[0] == prev[0] || now[1] == prev[0]) {
				if p := s.ctrlCl.PoolOf(now); p != nil {
					s.tr.Class("prefer-dual-gained-family")
					continue
				}
			}
			s.setViol(vw.Violationf("address-changed-spontaneously", "%s: %s did not change its request and %v was still admissible, but it now holds %v", label, k, prev, now).
				WithSig(fmt.Sprintf("spontaneous:single-clusterip-prefer=%v", len(sp.Families) == 1 && sp.Policy == vw.PolicyPrefer)))
			return
		}
	}
	q := &quiescent{addrs: map[string][]netip.Addr{}, specs: map[string]vw.SvcSpec{}}
	for k, sp := range s.specs {
		q.addrs[k] = s.status(k)
		q.specs[k] = sp
	}
	s.lastQ = q
	s.touched = map[string]bool{}
	s.exempt = map[string]bool{}
}

// starveSig classifies a starvation by what changed last for the co-tenants (for the known-findings file).
func (s *sim) starveSig(k string) string { return "starved" }

func fmtHolders(h vw.Holders) string {
	keys := make([]string, 0, len(h))
	for k := range h {
		keys = append(keys, k)
	}
	sort.Strings(keys)
	var b strings.Builder
	for _, k := range keys {
		fmt.Fprintf(&b, "%s=%v(share=%q ports=%v local=%v) ", k, h[k].IPs, h[k].Sharing, h[k].Ports, h[k].Local)
	}
	return b.String()
}

// writeDiscipline: C03's last sentence. Two forced re-syncs at quiescence: the first may normalise
// (at most one write per service), the second must not write at all.
func (s *sim) writeDiscipline() bool {
	// the clause speaks of converged services: one that holds addresses its own spec does not admit (a dual-stack
	// service that could only be given one family, an address request that does not fit the families) is kept in a
	// degraded state which the controller keeps trying to repair, and may change on any re-sync
	skip := map[string]bool{}
	sh := s.statusHolders()
	for k := range s.specs {
		if as := s.status(k); len(as) > 0 && !s.admissible(k, as, sh) {
			skip[k] = true
			s.tr.Class("holds-addresses-its-spec-does-not-admit")
		}
	}
	for round := 1; round <= 2; round++ {
		before := map[string]int{}
		for k, n := range s.writes {
			before[k] = n
		}
		s.enqueue("reload")
		if !s.settle() {
			return false
		}
		for k := range s.specs {
			d := s.writes[k] - before[k]
			if skip[k] {
				continue
			}
			if (round == 1 && d > 1) || (round == 2 && d > 0) {
				sp := s.specs[k]
				s.setViol(vw.Violationf("resync-writes-status", "re-sync #%d of the converged service %s performed %d status write(s); status now %v", round, k, d, s.status(k)).
					WithSig(fmt.Sprintf("resync-write:single-clusterip-prefer=%v", len(sp.Families) == 1 && sp.Policy == vw.PolicyPrefer)))
				return true
			}
		}
	}
	s.tr.Class("double-resync-without-write")
	return true
}

// ---- restart ---------------------------------------------------------------

func (s *sim) restart(op ctrlOp) {
	s.tr.Class("restart")
	// R: what the statuses record at the moment of the crash
	R := map[string][]netip.Addr{}
	for k := range s.specs {
		R[k] = s.status(k)
	}
	pendingBefore := len(s.pending) > 0
	if s.recR != nil {
		// a second crash before the first restart was judged: nobody is an innocent bystander in this settling period
		for k := range s.specs {
			s.touched[k] = true
		}
	}
	s.recR, s.thefts, s.sinceRestart, s.blame, s.fewer, s.gaveUp = R, map[string]bool{}, map[string]bool{}, map[string]bool{}, map[string]bool{}, map[string]bool{}
	s.blameWho = map[string][]string{}
	s.crash = ""
	s.fail = append([]bool(nil), op.Fail...) // status writes failing during the first passes of the new instance
	s.readFail = append([]bool(nil), op.ReadFail...)
	s.listFail = append([]bool(nil), op.ListFail...)
	s.boot()
	s.w.PermuteServices(op.Perm)
	if len(op.Perm) == len(s.w.Services) {
		for i, j := range op.Perm {
			if i != j {
				s.tr.Class("restart-list-permuted")
				break
			}
		}
	}
	// events that arrive before the first full sync, with the pool reconcile among them
	var early []string
	for _, i := range op.Early {
		if k, ok := s.liveKey(i); ok {
			early = append(early, k)
		}
	}
	pos := op.PoolPos
	if pos > len(early) {
		pos = len(early)
	}
	for i, k := range early {
		if i == pos {
			s.enqueue("pool")
		}
		s.enqueue(k)
	}
	s.enqueue("pool")
	// the informer delivers an Add event for every existing service at start-up: the rest arrives after the pool reconcile
	for _, obj := range s.w.Services {
		s.enqueue(obj.Namespace + "/" + obj.Name)
	}
	s.restartOp = op
	s.pendingBefore = pendingBefore
}

// restartJudge runs at the first quiescence after a restart.
func (s *sim) restartJudge() {
	R, op, pendingBefore := s.recR, s.restartOp, s.pendingBefore
	since := s.sinceRestart
	s.recR, s.sinceRestart = nil, nil
	if R == nil || s.viol != nil {
		return
	}
	if !(s.j.C06 || s.j.C03 || s.j.Stab) || !s.hasCfg {
		return
	}
	recordedHolders := vw.Holders{}
	nRec, nPend := 0, 0
	for k, as := range R {
		if len(as) > 0 {
			recordedHolders[k] = vw.HolderOf(s.specs[k], as, "")
			nRec++
		} else if s.specs[k].Type == vw.TypeLoadBalancer {
			nPend++
		}
	}
	if nRec > 0 && (nPend > 0 || pendingBefore) {
		s.tr.Class("crash-with-recorded-and-pending")
		s.tr.NonTrivial()
	}
	for k, as := range R {
		if len(as) == 0 {
			continue // a theft by a service without record shows up below as the victim's loss (thief-had-recorded-address=false)
		}
		if since[k] {
			continue
		}
		if !s.admissible(k, as, recordedHolders) {
			// e.g. a co-tenant changed its ports while the controller was down: the recorded address is contested, the
			// new instance serves whoever it processes first - this service is no innocent bystander of this period
			s.exempt[k] = true
			continue
		}
		if _, alive := s.specs[k]; !alive {
			continue
		}
		now := s.status(k)
		if addrSetKey(now) == addrSetKey(as) {
			s.tr.Class("restart-kept-recorded")
			continue
		}
		sp := s.specs[k]
		if n := sp.Need(); n.Dual() && n.Prefer && len(as) == 1 && len(now) == 2 && (now[0] == as[0] || now[1] == as[0]) {
			continue
		}
		// who has it now? (a thief that itself had a recorded address = the listed known pattern)
		thief, thiefHadRecord := "", false
		for o := range s.specs {
			if o == k {
				continue
			}
			for _, a := range s.status(o) {
				for _, b := range as {
					if a == b {
						if thief == "" || len(R[o]) > 0 {
							thief = o
						}
						if len(R[o]) > 0 {
							thiefHadRecord = true
						}
					}
				}
			}
		}
		sig := "restart-lost:no-thief"
		if had, seen := s.thefts[k]; seen && thief == "" {
			thief, thiefHadRecord = "(transient)", had
		}
		if had, seen := s.blame[k]; seen {
			// what counts is who held the address when this service was processed, not who picked it up afterwards
			if thief == "" {
				thief = "(transient)"
			}
			thiefHadRecord = had
		}
		if thief != "" {
			sig = fmt.Sprintf("restart-lost:thief-had-recorded-address=%v", thiefHadRecord)
			if thiefHadRecord && s.fewer[k] {
				sig = "restart-lost:thief-had-fewer-recorded-addresses"
			}
		}
		for _, o := range s.blameWho[k] {
			if s.gaveUp[o] {
				// the holder had given up a record of its own that was free and admissible: it had no reason to allocate
				// at all, which the listed ordering defect does not explain
				sig = "restart-lost:thief-gave-up-a-valid-record"
			}
		}
		if s.gaveUp[k] {
			sig = "restart-lost:address-was-free-when-the-service-was-handled"
		}
		v := vw.Violationf("restart-lost-recorded-address", "%s had %v recorded and still admissible at the crash, after the restart it holds %v (now held by %q; list order %v, early %v)", k, as, now, thief, op.Perm, op.Early).WithSig(sig)
		if id := vw.KnownID("C06", v); id != "" {
			s.tr.Known(id)
			s.exempt[k] = true
			continue
		}
		s.setViol(v)
		return
	}
}

// ---- run -------------------------------------------------------------------

func runCtrl(c ctrlCase, tr *vw.Trace, j judgeSet) *vw.Violation {
	s := newSim(c.Cluster, tr, j)
	if c.LBClass {
		s.w.LBClass = "verif.example/metallb"
		s.boot() // the reconcilers are created with the class
		s.enqueue("pool")
		tr.Class("running-with-lb-class")
	}
	s.ipModeDefault = c.IPModeDefault
	if c.IPModeDefault {
		tr.Class("api-server-defaults-ipmode")
	}
	quiesce := func(label string) bool {
		if !s.settle() {
			return false
		}
		s.atQuiescence(label)
		if s.viol == nil && s.j.C03 && s.hasCfg {
			if !s.writeDiscipline() {
				return false
			}
		}
		if s.viol == nil && s.j.C18 && s.hasCfg {
			// an event that leaves the resources as they are (here: one more reconcile of the same store) must not look
			// like a configuration change to the controller that lived through the history
			before, writes := s.poolCalls, 0
			for _, n := range s.writes {
				writes += n
			}
			s.enqueue("pool")
			if !s.settle() {
				return false
			}
			after := 0
			for _, n := range s.writes {
				after += n
			}
			if s.poolCalls != before {
				s.setViol(vw.Violationf("unchanged-configuration-reloaded", "%s: reconciling the unchanged pools again delivered the configuration to the controller %d more time(s) (and caused %d status write(s))", label, s.poolCalls-before, after-writes))
			} else {
				s.tr.Class("unchanged-configuration-not-reloaded")
			}
		}
		return true
	}
	for i, op := range c.Ops {
		if s.viol != nil {
			break
		}
		label := fmt.Sprintf("op %d (%s)", i, op.Kind)
		crashed := false
		switch op.Kind {
		case "create":
			s.create(*op.Spec)
		case "update":
			s.update(op.Svc, *op.Spec)
			if k, ok := s.liveKey(op.Svc); ok && op.Reset && op.Spec.Type != vw.TypeLoadBalancer {
				if obj := s.w.ServiceByKey(k); obj != nil && len(obj.Status.LoadBalancer.Ingress) > 0 {
					obj.Status.LoadBalancer = v1.LoadBalancerStatus{}
					tr.Class("type-change-with-status-reset-by-api-server")
				}
			}
			tr.Class("service-updated")
		case "event":
			if k, ok := s.liveKey(op.Svc); ok { // a watch event without a spec change (metadata touch, periodic resync)
				s.enqueue(k)
			}
		case "delete":
			if k, ok := s.liveKey(op.Svc); ok && len(s.status(k)) > 0 {
				tr.Class("release-by-delete")
			}
			s.delete(op.Svc)
		case "pools":
			s.setCluster(*op.Cluster)
			tr.Class("pool-edit")
		case "resync":
			if s.hasCfg { // a re-sync request can only originate from a handler, i.e. after the first configuration
				s.enqueue("reload")
			}
		case "step":
			if len(s.pending) > 0 {
				crashed = s.process(op.Pick % len(s.pending))
				tr.Class("scheduled-step")
			}
		case "failwrites":
			s.fail = append(s.fail, op.Fail...)
			s.readFail = append(s.readFail, op.ReadFail...)
			s.listFail = append(s.listFail, op.ListFail...)
		case "settle":
			crashed = !quiesce(label)
		case "crash":
			if op.Mode != "between" {
				s.crash = op.Mode
				if s.settle() {
					s.crash = "" // nothing was written: stop here instead
				}
			}
			tr.Class("crash-" + op.Mode)
			s.restart(op)
			if op.Settle {
				crashed = !quiesce(label + " restarted")
			}
		}
		if os.Getenv("VERIF_TRACE") != "" {
			fmt.Fprintf(os.Stderr, "TRACE %s pending=%v\n", label, s.pending)
			for _, k := range s.order {
				fmt.Fprintf(os.Stderr, "      %s status=%v mem=%v pool=%q\n", k, s.status(k), s.c.ips.IPs(k), s.c.ips.Pool(k))
			}
		}
		if crashed {
			// a crash can only come from an armed crash op; be safe
			s.restart(ctrlOp{Perm: nil})
			s.settle()
		}
	}
	if s.faulted {
		tr.Class("recovered-from-write-failures")
		tr.NonTrivial()
	}
	return s.viol
}

// ---- tests -----------------------------------------------------------------

var ctrlAssumptions = []string{
	"services have >=1 port, cluster IPs consistent with the family policy; the primary family never changes (Kubernetes admission)",
	"a status update persists status and metadata annotations (behaviour of the services/status subresource) and triggers a service event",
	"work queues coalesce: a key is pending at most once; a request that returns an error is retried",
	"no loadBalancerClass filtering (all services belong to MetalLB)",
}

const ctrlRule = "1..4 disjoint pools from the tiny v4/v6 universe with policy attributes; 3..30 ops: service create / update (ports, sharing key, traffic policy, selector, explicit IPs / pool incl. deprecated annotations, type, labels, secondary family) / delete, pool-set edits (rename, remove, shrink, split, merge, flags, re-target, namespace labels), forced re-sync, scheduled single reconciliations, run-to-quiescence"

func TestVerifC01Ctrl(t *testing.T) {
	vw.Run(t, vw.Options{Property: "C01", Engine: "controller", Rule: ctrlRule + "; exclusivity checked on Allocator.IPs after every handler invocation and on the statuses at every quiescence; non-trivial = >=2 services shared an address at some point", Assumptions: ctrlAssumptions},
		func(rt *rapid.T) ctrlCase { return genCtrlCase(rt, ctrlGenOpts{Sched: true}) },
		func(c ctrlCase, tr *vw.Trace) *vw.Violation { return runCtrl(c, tr, judgeSet{C01: true}) })
}

// The same with finite sequences of failing status writes and reads (a stale status left behind by a failed write
// must not survive to quiescence next to another holder of the address).
func TestVerifC01CtrlFaults(t *testing.T) {
	vw.Run(t, vw.Options{Property: "C01", Engine: "controller-faults", Rule: ctrlRule + ", finite sequences of failing status writes and reads; exclusivity checked on Allocator.IPs after every handler invocation and on the statuses at every quiescence; non-trivial = >=2 services shared an address at some point", Assumptions: ctrlAssumptions},
		func(rt *rapid.T) ctrlCase { return genCtrlCase(rt, ctrlGenOpts{Sched: true, Faults: true}) },
		func(c ctrlCase, tr *vw.Trace) *vw.Violation { return runCtrl(c, tr, judgeSet{C01: true}) })
}

func TestVerifC02Ctrl(t *testing.T) {
	vw.Run(t, vw.Options{Property: "C02", Engine: "controller", Rule: ctrlRule + "; every newly recorded address set judged against the CRs (pool membership, buggy addresses, admission, families, auto-assign, pinned-before-unpinned, priority, explicit requests, pool annotation); non-trivial = several pinned candidates, or sharing", Assumptions: ctrlAssumptions},
		func(rt *rapid.T) ctrlCase { return genCtrlCase(rt, ctrlGenOpts{Sched: true}) },
		func(c ctrlCase, tr *vw.Trace) *vw.Violation { return runCtrl(c, tr, judgeSet{C02: true}) })
}

func TestVerifC03Ctrl(t *testing.T) {
	vw.Run(t, vw.Options{Property: "C03", Engine: "controller", Rule: ctrlRule + "; at every quiescence each service whose spec did not change and whose previous addresses are still admissible must hold the same set; two forced re-syncs must write at most once, then never; non-trivial = an unchanged address-holding service was checked after a perturbing event", Assumptions: ctrlAssumptions},
		func(rt *rapid.T) ctrlCase {
			return genCtrlCase(rt, ctrlGenOpts{Sched: true, Crash: true, Faults: true})
		},
		func(c ctrlCase, tr *vw.Trace) *vw.Violation {
			v := runCtrl(c, tr, judgeSet{C03: true})
			if tr.Has("innocent-bystander-checked") && (tr.Has("service-updated") || tr.Has("pool-edit") || tr.Has("release-by-delete")) {
				tr.NonTrivial()
			}
			return v
		})
}

func TestVerifC06Ctrl(t *testing.T) {
	vw.Run(t, vw.Options{Property: "C06", Engine: "controller", Rule: ctrlRule + ", crashes (between events, inside a handler just before / just after the status write) followed by a restart with a generated service list order, early events and pool-reconcile position, and finite sequences of failing status writes; non-trivial = crash with recorded and pending services, or recovery from failed writes", Assumptions: ctrlAssumptions},
		func(rt *rapid.T) ctrlCase {
			return genCtrlCase(rt, ctrlGenOpts{Sched: true, Crash: true, Faults: true})
		},
		func(c ctrlCase, tr *vw.Trace) *vw.Violation {
			return runCtrl(c, tr, judgeSet{C06: true, C01: true, Stab: true})
		})
}

func TestVerifC07Ctrl(t *testing.T) {
	vw.Run(t, vw.Options{Property: "C07", Engine: "controller", Rule: ctrlRule + "; at every quiescence an independent search over the CRs and the recorded statuses decides whether a pending service has an admissible assignment; non-trivial = a service was pending at quiescence", Assumptions: ctrlAssumptions},
		func(rt *rapid.T) ctrlCase { return genCtrlCase(rt, ctrlGenOpts{Sched: true}) },
		func(c ctrlCase, tr *vw.Trace) *vw.Violation { return runCtrl(c, tr, judgeSet{C07: true}) })
}

// The same with finite sequences of failing status writes and reads in the histories (a release whose status
// write fails must still reach the services waiting for the address).
func TestVerifC07CtrlFaults(t *testing.T) {
	vw.Run(t, vw.Options{Property: "C07", Engine: "controller-faults", Rule: ctrlRule + ", finite sequences of failing status writes and reads; the same search at every quiescence; non-trivial = a service was pending at quiescence", Assumptions: ctrlAssumptions},
		func(rt *rapid.T) ctrlCase { return genCtrlCase(rt, ctrlGenOpts{Sched: true, Faults: true}) },
		func(c ctrlCase, tr *vw.Trace) *vw.Violation { return runCtrl(c, tr, judgeSet{C07: true}) })
}

func TestVerifC11Ctrl(t *testing.T) {
	vw.Run(t, vw.Options{Property: "C11", Engine: "controller", Rule: ctrlRule + "; at every quiescence the allocator's memory and per-pool counters must equal what the statuses record, for every service that ever existed, and no service may be pending while an independent search finds an admissible assignment for it (a given-up address is available to others); non-trivial = an address was released (delete / pool edit) and the run reached quiescence afterwards", Assumptions: ctrlAssumptions},
		func(rt *rapid.T) ctrlCase { return genCtrlCase(rt, ctrlGenOpts{Sched: true, Faults: true}) },
		func(c ctrlCase, tr *vw.Trace) *vw.Violation {
			// C07's search doubles as "a given-up address is available to others": no service may stay pending at
			// quiescence while an admissible assignment exists
			v := runCtrl(c, tr, judgeSet{C11: true, C07: true})
			if tr.Has("release-by-delete") || tr.Has("pool-edit") {
				tr.NonTrivial()
			}
			return v
		})
}

// C18 on the live controller: the configuration the reconciler remembers is shared with the controller and the
// allocator; nothing they do with it may make the next, unchanged, computation look different.
func TestVerifC18Ctrl(t *testing.T) {
	vw.Run(t, vw.Options{Property: "C18", Engine: "controller", Rule: ctrlRule + "; at every quiescence the pools are reconciled once more from the unchanged store: the real PoolReconciler must not deliver the configuration to the real controller again; non-trivial = >=1 address assigned before such a reconcile", Assumptions: ctrlAssumptions},
		func(rt *rapid.T) ctrlCase {
			c := genCtrlCase(rt, ctrlGenOpts{Sched: true, MaxOps: 16})
			if rapid.Bool().Draw(rt, "manyPools") {
				// many pools, most of them pinned: the per-namespace and per-selector indexes of the configuration get several
				// entries (slices with spare capacity that a careless consumer could write into)
				c.Cluster = vw.GenCluster(rt, vw.ClusterOpts{MinPools: 4, MaxPools: 8, MaxAtomsPerPool: 1, Namespaces: 2, Alloc: true})
			}
			return c
		},
		func(c ctrlCase, tr *vw.Trace) *vw.Violation {
			v := runCtrl(c, tr, judgeSet{C18: true})
			if tr.Has("unchanged-configuration-not-reloaded") || v != nil {
				tr.NonTrivial()
			}
			return v
		})
}

// Witnesses of the known findings of the controller engine (committed under /verif/witness).
func TestVerifCtrlWitness(t *testing.T) {
	for _, w := range []struct {
		prop, test string
		j          judgeSet
	}{{"C02", "TestVerifC02Ctrl", judgeSet{C02: true}}, {"C06", "TestVerifC06Ctrl", judgeSet{C06: true, C01: true, Stab: true}}, {"C03", "TestVerifC03Ctrl", judgeSet{C03: true}}, {"C07", "TestVerifC07Ctrl", judgeSet{C07: true}}} {
		if p := os.Getenv("VERIF_WITNESS_PROP"); p != "" && p != w.prop {
			continue
		}
		w := w
		vw.RunWitnesses(t, vw.Options{Property: w.prop, Engine: "controller-witness", Rule: "committed witness histories of the known findings"}, w.test,
			func(c ctrlCase, tr *vw.Trace) *vw.Violation { return runCtrl(c, tr, w.j) })
	}
}
