// Verification build only (overlay): the real docker_test.go starts an FRR
// container in TestMain, which cannot run offline. The golden-file tests that
// need it are not part of the harness.
package frr

import (
	"errors"
	"os"
	"testing"
)

var frrDir string

type invalidFileErr struct{ Reason string }

func (e invalidFileErr) Error() string { return e.Reason }

func testFileIsValid(string) error { return errors.New("no FRR container in the verification build") }

func TestMain(m *testing.M) { os.Exit(m.Run()) }
