//go:build verif

package frr

// Verification-only (overlay-injected) helpers: render the FRR configuration
// for a set of plain-data sessions through the real sessionManager /
// createConfig / templateConfig, and interpret the resulting text.
//
// Interpreter semantics (FRR manual, "Route Maps", "IP Prefix List", "BGP"):
//   * `ip prefix-list` and `ipv6 prefix-list` are separate name spaces; entries are
//     evaluated by sequence number; `permit P` (no ge/le) matches exactly P;
//     `deny any` matches everything; no entry matches => deny; a missing list never matches.
//   * a route-map is evaluated entry by entry in sequence order; `match ip address
//     prefix-list L` can only match IPv4 routes, `match ipv6 address ...` only IPv6 routes;
//     an entry without match clause matches everything; a matching deny entry rejects the
//     route; a matching permit entry applies its set clauses and accepts the route, unless it
//     says `on-match next`, in which case evaluation continues with the next entry and the
//     route stays accepted if no later entry matches; no entry matches => deny.
//   * `set community C additive` / `set large-community C additive` add C.
//   * a router originates the prefixes of its `network` statements per address family and
//     offers them to every neighbor activated in that family through the neighbor's
//     outbound route-map.

import (
	"fmt"
	"net"
	"sort"
	"strconv"
	"strings"
	"time"

	"go.universe.tf/metallb/internal/bgp"
	"go.universe.tf/metallb/internal/bgp/community"
	vw "go.universe.tf/metallb/internal/verifworld"
	v1 "k8s.io/api/core/v1"
)

// VerifParams converts a plain-data session into what the speaker hands to a session manager.
func VerifParams(s vw.BGPSession) bgp.SessionParameters {
	p := bgp.SessionParameters{PeerAddress: s.Addr, PeerPort: s.Port, PeerInterface: s.Iface, MyASN: s.MyASN, PeerASN: s.PeerASN, DynamicASN: s.DynamicASN,
		Password: s.Password, CurrentNode: "node0", BFDProfile: s.BFD, GracefulRestart: s.Graceful, EBGPMultiHop: s.Multihop, VRFName: s.VRF, SessionName: s.Name, DisableMP: s.DisableMP}
	if s.Src != "" {
		p.SourceAddress = net.ParseIP(s.Src)
	}
	if s.RouterID != "" {
		p.RouterID = net.ParseIP(s.RouterID)
	}
	if s.HoldSec > 0 {
		h, k := time.Duration(s.HoldSec)*time.Second, time.Duration(s.KeepSec)*time.Second
		p.HoldTime, p.KeepAliveTime = &h, &k
	}
	if s.ConnectSec > 0 {
		c := time.Duration(s.ConnectSec) * time.Second
		p.ConnectTime = &c
	}
	if s.SecretRef != "" {
		p.PasswordRef = v1.SecretReference{Name: s.SecretRef, Namespace: "metallb-system"}
	}
	return p
}

// VerifAdvs converts the requested advertisements; communities are sorted as bgp_controller sorts them.
func VerifAdvs(s vw.BGPSession, perm []int) []*bgp.Advertisement {
	var out []*bgp.Advertisement
	for i := range s.Advs {
		a := s.Advs[i]
		if len(perm) == len(s.Advs) {
			a = s.Advs[perm[i]]
		}
		_, n, err := net.ParseCIDR(a.Prefix)
		if err != nil {
			panic(err)
		}
		adv := &bgp.Advertisement{Prefix: n, LocalPref: a.LocalPref}
		for _, c := range a.Comms {
			cc, err := community.New(c)
			if err != nil {
				panic(err)
			}
			adv.Communities = append(adv.Communities, cc)
		}
		sort.Slice(adv.Communities, func(i, j int) bool { return adv.Communities[i].LessThan(adv.Communities[j]) })
		out = append(out, adv)
	}
	return out
}

// VerifRender drives the real session manager: NewSession in the given order, Set with the
// given permutation of each advertisement list, optionally closing and re-creating sessions,
// and returns the text templateConfig produces for the final state.
// VerifRejected is a Set call that must be refused and leave the session as it was: the advertisements Advs
// followed by an invalid element (Kind 0: an advertisement with 64 communities; Kind 1: the same prefix twice with
// different local preferences - 100/200, none/100 or 100/none - which no configuration can honour).
type VerifRejected struct {
	Session int         `json:"session"`
	Kind    int         `json:"kind"`
	Advs    []vw.BGPAdv `json:"advs"`
}

func VerifRender(sessions []vw.BGPSession, order []int, advPerm [][]int, churn []int, prior ...[][]vw.BGPAdv) (string, error) {
	return VerifRenderR(sessions, order, advPerm, churn, nil, prior...)
}

func VerifRenderR(sessions []vw.BGPSession, order []int, advPerm [][]int, churn []int, rejected []VerifRejected, prior ...[][]vw.BGPAdv) (string, error) {
	osHostname = func() (string, error) { return "verif-host", nil }
	sm := &sessionManager{sessions: map[string]*session{}, bfdProfiles: []BFDProfile{}, reloadConfig: make(chan reloadEvent, 4096), logLevel: "informational"}
	drain := func() {
		for {
			select {
			case <-sm.reloadConfig:
			default:
				return
			}
		}
	}
	idx := make([]int, len(sessions))
	for i := range idx {
		idx[i] = i
	}
	if len(order) == len(sessions) {
		idx = order
	}
	handles := map[int]bgp.Session{}
	for _, i := range idx {
		h, err := sm.NewSession(nil, VerifParams(sessions[i]))
		if err != nil {
			return "", fmt.Errorf("NewSession %s: %w", sessions[i].Name, err)
		}
		handles[i] = h
		drain()
	}
	set := func(i int) error {
		var p []int
		if i < len(advPerm) {
			p = advPerm[i]
		}
		err := handles[i].Set(VerifAdvs(sessions[i], p)...)
		drain()
		return err
	}
	// earlier Set calls with other advertisement lists: the final text must not remember them
	if len(prior) > 0 {
		for _, i := range idx {
			if i < len(prior[0]) && prior[0][i] != nil {
				old := sessions[i]
				old.Advs = prior[0][i]
				if err := handles[i].Set(VerifAdvs(old, nil)...); err != nil {
					return "", fmt.Errorf("prior Set %s: %w", sessions[i].Name, err)
				}
				drain()
			}
		}
	}
	for _, i := range idx {
		if err := set(i); err != nil {
			return "", fmt.Errorf("Set %s: %w", sessions[i].Name, err)
		}
	}
	// refused Set calls: the session must keep what it had
	for _, r := range rejected {
		i := r.Session % len(sessions)
		tmp := sessions[i]
		tmp.Advs = r.Advs
		advs := VerifAdvs(tmp, nil)
		bad := &bgp.Advertisement{Prefix: mustNet("10.99.0.1/32")}
		if r.Kind == 0 {
			for k := 0; k < 64; k++ {
				c, _ := community.New(fmt.Sprintf("65000:%d", k+1))
				bad.Communities = append(bad.Communities, c)
			}
			advs = append(advs, bad)
		} else {
			// two requests for one prefix with different local preferences (also: none and some, in both orders)
			lps := [][2]uint32{{100, 200}, {0, 100}, {100, 0}}[len(r.Advs)%3]
			bad.LocalPref = lps[0]
			bad2 := &bgp.Advertisement{Prefix: mustNet("10.99.0.1/32"), LocalPref: lps[1]}
			advs = append(advs, bad, bad2)
		}
		err := handles[i].Set(advs...)
		drain()
		if err == nil && r.Kind != 0 {
			// one neighbor can be offered a prefix with one local preference only: whatever is generated for this
			// request, one of its two advertisements is not offered as requested
			return "", fmt.Errorf("Set on %s accepted two advertisements of 10.99.0.1/32 with local preferences %d and %d: neither can be honoured without breaking the other", sessions[i].Name, bad.LocalPref, advs[len(advs)-1].LocalPref)
		}
		if err == nil {
			// accepted after all (then it is simply an earlier request): the final request follows
			if err := set(i); err != nil {
				return "", err
			}
		}
	}
	// churn: close and re-create some sessions (history must not matter)
	for _, c := range churn {
		i := c % len(sessions)
		if err := handles[i].Close(); err != nil {
			return "", err
		}
		drain()
		h, err := sm.NewSession(nil, VerifParams(sessions[i]))
		if err != nil {
			return "", err
		}
		handles[i] = h
		drain()
		if err := set(i); err != nil {
			return "", err
		}
	}
	cfg, err := sm.createConfig()
	if err != nil {
		return "", err
	}
	return templateConfig(cfg)
}

func mustNet(s string) *net.IPNet {
	_, n, err := net.ParseCIDR(s)
	if err != nil {
		panic(err)
	}
	return n
}

// ---------------------------------------------------------------- interpreter

type vPLEntry struct {
	seq    int
	permit bool
	prefix string // "any" or a prefix
}

type vRMEntry struct {
	seq       int
	permit    bool
	matchAfi  string // "ip", "ipv6" or "" (no match clause)
	matchList string
	setLP     *uint32
	setComm   []string
	setLarge  []string
	next      bool
}

type VerifNeighbor struct {
	Peer         string
	RemoteAS     string
	Interface    bool
	Port         int
	Keepalive    int
	Hold         int
	Connect      int
	Password     string
	UpdateSource string
	Multihop     bool
	BFDProfile   string
	Graceful     bool
	DisableCC    bool
	AF           map[string]*vNbrAF // "ipv4" / "ipv6"
}

type vNbrAF struct {
	activate bool
	in, out  string
}

type VerifRouter struct {
	ASN       string
	VRF       string
	RouterID  string
	Neighbors map[string]*VerifNeighbor
	Networks  map[string][]string // "ipv4"/"ipv6" -> prefixes
}

type VerifConfig struct {
	pl      map[string]map[string][]vPLEntry // afi ("ip"/"ipv6") -> name -> entries
	rm      map[string][]*vRMEntry
	Routers []*VerifRouter
}

// VerifInterpret parses exactly the constructs the templates emit; anything else is an error
// (the caller treats it as inconclusive, never as a violation).
func VerifInterpret(text string) (*VerifConfig, error) {
	c := &VerifConfig{pl: map[string]map[string][]vPLEntry{"ip": {}, "ipv6": {}}, rm: map[string][]*vRMEntry{}}
	var curRM *vRMEntry
	var curR *VerifRouter
	curAF := ""
	lines := strings.Split(text, "\n")
	for ln := 0; ln < len(lines); ln++ {
		raw := lines[ln]
		f := strings.Fields(raw)
		if len(f) == 0 {
			continue
		}
		indented := strings.HasPrefix(raw, " ")
		if !indented {
			curRM, curR, curAF = nil, nil, ""
		}
		switch {
		case !indented && (f[0] == "log" || f[0] == "debug" || f[0] == "hostname"):
		case !indented && len(f) >= 2 && (f[0] == "ip" || f[0] == "ipv6") && f[1] == "nht":
		case !indented && f[0] == "bfd":
			return c, nil // profiles follow until the end of the file; not part of the property
		case !indented && len(f) >= 7 && (f[0] == "ip" || f[0] == "ipv6") && f[1] == "prefix-list" && f[3] == "seq":
			seq, err := strconv.Atoi(f[4])
			if err != nil {
				return nil, fmt.Errorf("line %d: bad seq: %q", ln+1, raw)
			}
			e := vPLEntry{seq: seq, permit: f[5] == "permit", prefix: f[6]}
			if f[5] != "permit" && f[5] != "deny" || len(f) != 7 {
				return nil, fmt.Errorf("line %d: unknown prefix-list form: %q", ln+1, raw)
			}
			c.pl[f[0]][f[2]] = append(c.pl[f[0]][f[2]], e)
		case !indented && f[0] == "route-map" && len(f) == 4:
			seq, err := strconv.Atoi(f[3])
			if err != nil || (f[2] != "permit" && f[2] != "deny") {
				return nil, fmt.Errorf("line %d: bad route-map header: %q", ln+1, raw)
			}
			curRM = &vRMEntry{seq: seq, permit: f[2] == "permit"}
			c.rm[f[1]] = append(c.rm[f[1]], curRM)
			// the entry's clauses are the following indented lines
			for ln+1 < len(lines) && strings.HasPrefix(lines[ln+1], " ") {
				ln++
				g := strings.Fields(lines[ln])
				switch {
				case len(g) == 0:
				case len(g) == 5 && g[0] == "match" && (g[1] == "ip" || g[1] == "ipv6") && g[2] == "address" && g[3] == "prefix-list":
					curRM.matchAfi, curRM.matchList = g[1], g[4]
				case len(g) == 3 && g[0] == "set" && g[1] == "local-preference":
					v, err := strconv.ParseUint(g[2], 10, 32)
					if err != nil {
						return nil, fmt.Errorf("line %d: %q", ln+1, lines[ln])
					}
					u := uint32(v)
					curRM.setLP = &u
				case len(g) == 4 && g[0] == "set" && g[1] == "community" && g[3] == "additive":
					curRM.setComm = append(curRM.setComm, g[2])
				case len(g) == 4 && g[0] == "set" && g[1] == "large-community" && g[3] == "additive":
					curRM.setLarge = append(curRM.setLarge, g[2])
				case len(g) == 2 && g[0] == "on-match" && g[1] == "next":
					curRM.next = true
				default:
					return nil, fmt.Errorf("line %d: unknown route-map clause: %q", ln+1, lines[ln])
				}
			}
		case !indented && f[0] == "router" && len(f) >= 3 && f[1] == "bgp":
			curR = &VerifRouter{ASN: f[2], Neighbors: map[string]*VerifNeighbor{}, Networks: map[string][]string{}}
			if len(f) == 5 && f[3] == "vrf" {
				curR.VRF = f[4]
			} else if len(f) != 3 {
				return nil, fmt.Errorf("line %d: unknown router form: %q", ln+1, raw)
			}
			c.Routers = append(c.Routers, curR)
			for ln+1 < len(lines) && (strings.HasPrefix(lines[ln+1], " ") || strings.TrimSpace(lines[ln+1]) == "") {
				ln++
				g := strings.Fields(lines[ln])
				if len(g) == 0 {
					continue
				}
				nb := func(peer string) *VerifNeighbor {
					n := curR.Neighbors[peer]
					if n == nil {
						n = &VerifNeighbor{Peer: peer, AF: map[string]*vNbrAF{}}
						curR.Neighbors[peer] = n
					}
					return n
				}
				switch {
				case g[0] == "no" || (g[0] == "bgp" && len(g) >= 2 && g[1] == "graceful-restart"):
				case len(g) == 3 && g[0] == "bgp" && g[1] == "router-id":
					curR.RouterID = g[2]
				case g[0] == "address-family" && len(g) == 3 && g[2] == "unicast":
					curAF = g[1]
				case g[0] == "exit-address-family":
					curAF = ""
				case g[0] == "network" && len(g) == 2 && curAF != "":
					curR.Networks[curAF] = append(curR.Networks[curAF], g[1])
				case g[0] == "neighbor" && curAF != "" && len(g) == 3 && g[2] == "activate":
					n := nb(g[1])
					if n.AF[curAF] == nil {
						n.AF[curAF] = &vNbrAF{}
					}
					n.AF[curAF].activate = true
				case g[0] == "neighbor" && curAF != "" && len(g) == 5 && g[2] == "route-map":
					n := nb(g[1])
					if n.AF[curAF] == nil {
						n.AF[curAF] = &vNbrAF{}
					}
					if g[4] == "in" {
						n.AF[curAF].in = g[3]
					} else if g[4] == "out" {
						n.AF[curAF].out = g[3]
					} else {
						return nil, fmt.Errorf("line %d: %q", ln+1, lines[ln])
					}
				case g[0] == "neighbor" && curAF == "" && len(g) == 4 && g[2] == "remote-as":
					nb(g[1]).RemoteAS = g[3]
				case g[0] == "neighbor" && curAF == "" && len(g) == 5 && g[2] == "interface" && g[3] == "remote-as":
					n := nb(g[1])
					n.RemoteAS, n.Interface = g[4], true
				case g[0] == "neighbor" && curAF == "" && len(g) == 3 && g[2] == "ebgp-multihop":
					nb(g[1]).Multihop = true
				case g[0] == "neighbor" && curAF == "" && len(g) == 4 && g[2] == "port":
					nb(g[1]).Port, _ = strconv.Atoi(g[3])
				case g[0] == "neighbor" && curAF == "" && len(g) == 5 && g[2] == "timers" && g[3] == "connect":
					nb(g[1]).Connect, _ = strconv.Atoi(g[4])
				case g[0] == "neighbor" && curAF == "" && len(g) == 5 && g[2] == "timers":
					n := nb(g[1])
					n.Keepalive, _ = strconv.Atoi(g[3])
					n.Hold, _ = strconv.Atoi(g[4])
				case g[0] == "neighbor" && curAF == "" && len(g) == 4 && g[2] == "password":
					nb(g[1]).Password = g[3]
				case g[0] == "neighbor" && curAF == "" && len(g) == 4 && g[2] == "update-source":
					nb(g[1]).UpdateSource = g[3]
				case g[0] == "neighbor" && curAF == "" && len(g) == 3 && g[2] == "graceful-restart":
					nb(g[1]).Graceful = true
				case g[0] == "neighbor" && curAF == "" && len(g) == 3 && g[2] == "bfd":
				case g[0] == "neighbor" && curAF == "" && len(g) == 5 && g[2] == "bfd" && g[3] == "profile":
					nb(g[1]).BFDProfile = g[4]
				case g[0] == "neighbor" && curAF == "" && len(g) == 3 && g[2] == "disable-connected-check":
					nb(g[1]).DisableCC = true
				default:
					return nil, fmt.Errorf("line %d: unknown router clause: %q", ln+1, lines[ln])
				}
			}
		default:
			return nil, fmt.Errorf("line %d: unknown construct: %q", ln+1, raw)
		}
	}
	return c, nil
}

func (c *VerifConfig) plPermits(afi, name, prefix string) bool {
	es, ok := c.pl[afi][name]
	if !ok {
		return false
	}
	s := append([]vPLEntry(nil), es...)
	sort.SliceStable(s, func(i, j int) bool { return s[i].seq < s[j].seq })
	for _, e := range s {
		if e.prefix == "any" || e.prefix == prefix {
			return e.permit
		}
	}
	return false
}

// Apply evaluates a route-map for a route of the given family.
func (c *VerifConfig) Apply(name, fam, prefix string) (bool, vw.Route) {
	r := vw.Route{}
	es, ok := c.rm[name]
	if !ok {
		return false, r // a neighbor pointing at a missing route-map denies (FRR: no bgp ebgp-requires-policy does not apply to a configured but undefined map)
	}
	s := append([]*vRMEntry(nil), es...)
	sort.SliceStable(s, func(i, j int) bool { return s[i].seq < s[j].seq })
	afi := "ip"
	if fam == "ipv6" {
		afi = "ipv6"
	}
	accepted := false
	comms := map[string]bool{}
	for _, e := range s {
		if e.matchList != "" && !(e.matchAfi == afi && c.plPermits(afi, e.matchList, prefix)) {
			continue
		}
		if !e.permit {
			return false, vw.Route{}
		}
		accepted = true
		if e.setLP != nil {
			r.LocalPref = *e.setLP
		}
		for _, x := range e.setComm {
			comms[x] = true
		}
		for _, x := range e.setLarge {
			comms[x+"(large)"] = true
		}
		if !e.next {
			break
		}
	}
	for x := range comms {
		r.Comms = append(r.Comms, x)
	}
	sort.Strings(r.Comms)
	return accepted, r
}

// Offered computes what the neighbor is offered: prefix -> route.
func (c *VerifConfig) Offered(r *VerifRouter, n *VerifNeighbor) (vw.RouteTable, []string) {
	t := vw.RouteTable{}
	var notes []string
	for fam, af := range n.AF {
		if !af.activate {
			continue
		}
		for _, p := range r.Networks[fam] {
			if ok, route := c.Apply(af.out, fam, p); ok {
				t[p] = route
			}
		}
		// inbound: everything must be rejected
		for _, probe := range []string{"0.0.0.0/0", "10.20.0.1/32", "192.0.2.0/24", "::/0", "fc00:20::1/128"} {
			pf := "ipv4"
			if strings.Contains(probe, ":") {
				pf = "ipv6"
			}
			if pf != fam {
				continue
			}
			if ok, _ := c.Apply(af.in, fam, probe); ok || af.in == "" {
				notes = append(notes, fmt.Sprintf("inbound route-map %q of %s accepts %s", af.in, n.Peer, probe))
			}
		}
	}
	return t, notes
}

// Router finds the router of (asn, vrf).
func (c *VerifConfig) Router(asn uint32, vrf string) *VerifRouter {
	for _, r := range c.Routers {
		if r.ASN == strconv.FormatUint(uint64(asn), 10) && r.VRF == vrf {
			return r
		}
	}
	return nil
}

// VerifRoutes: sessions -> text -> per-session offered table (used by the frr-k8s differential).
func VerifRoutes(sessions []vw.BGPSession) (map[string]vw.RouteTable, string, error) {
	text, err := VerifRender(sessions, nil, nil, nil)
	if err != nil {
		return nil, "", err
	}
	cfg, err := VerifInterpret(text)
	if err != nil {
		return nil, text, err
	}
	out := map[string]vw.RouteTable{}
	for _, s := range sessions {
		r := cfg.Router(s.MyASN, s.VRF)
		if r == nil {
			return nil, text, fmt.Errorf("no router for %s", s.Name)
		}
		peer := s.Addr
		if s.Iface != "" {
			peer = s.Iface
		}
		n := r.Neighbors[peer]
		if n == nil {
			return nil, text, fmt.Errorf("no neighbor for %s", s.Name)
		}
		t, _ := cfg.Offered(r, n)
		out[s.Name] = t
	}
	return out, text, nil
}
