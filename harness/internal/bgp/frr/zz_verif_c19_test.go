//go:build verif && go1.25

package frr

// C19 — FRR reload delivery. The real debouncer runs inside a testing/synctest
// bubble (virtual clock, deterministic scheduling). Oracle: an independent
// event-driven reference model of "store the newest configuration, arm the
// timer once, apply on expiry, retry after the failure interval", compared
// attempt by attempt (time, configuration, outcome) with what the real
// debouncer did; plus bounded blocking of submitters.

import (
	"errors"
	"fmt"
	"os"
	"testing"
	"testing/synctest"
	"time"

	"github.com/go-kit/log"
	"go.universe.tf/metallb/internal/bgp"
	metallbconfig "go.universe.tf/metallb/internal/config"
	vw "go.universe.tf/metallb/internal/verifworld"
	"pgregory.net/rapid"
)

type c19Ev struct {
	Delay int64 `json:"delay_ns"` // time since the previous submission completed
	Kind  int   `json:"kind"`     // 0 new configuration, 1 resubmit the latest one, 2 re-apply request (useOld), 3 resubmit an older one
}

type c19Case struct {
	Events   []c19Ev `json:"events"`
	Fails    []bool  `json:"fails"`
	BodyNs   int64   `json:"body_ns"`
	Debounce int64   `json:"debounce_ns"`
	Retry    int64   `json:"retry_ns"`
}

type c19Attempt struct {
	Start int64
	Cfg   int
	OK    bool
}

func genC19(rt *rapid.T) c19Case {
	c := c19Case{Debounce: int64(3 * time.Second), Retry: int64(5 * time.Second)}
	c.BodyNs = rapid.SampledFrom([]int64{0, 0, 1, int64(time.Millisecond), int64(2 * time.Second), int64(4 * time.Second)}).Draw(rt, "body")
	marks := []int64{0, 1, int64(time.Millisecond), c.Debounce - 1, c.Debounce, c.Debounce + 1, c.Retry - 1, c.Retry, c.Retry + 1, c.Debounce / 2, 2 * c.Debounce, c.Retry + c.Debounce, int64(20 * time.Second)}
	for i, n := 0, rapid.IntRange(1, 12).Draw(rt, "nevents"); i < n; i++ {
		c.Events = append(c.Events, c19Ev{Delay: rapid.SampledFrom(marks).Draw(rt, "delay"), Kind: rapid.SampledFrom([]int{0, 0, 0, 0, 1, 2, 3}).Draw(rt, "kind")})
	}
	c.Fails = rapid.SliceOfN(rapid.Bool(), 0, 6).Draw(rt, "fails")
	return c
}

// c19Observe runs the real debouncer.
func c19Observe(t *testing.T, c c19Case) (attempts []c19Attempt, latency []int64, submitted []int) {
	synctest.Test(t, func(t *testing.T) {
		start := time.Now()
		now := func() int64 { return int64(time.Since(start)) }
		reload := make(chan reloadEvent)
		cfgs := map[int]*frrConfig{}
		cfgOf := func(id int) *frrConfig {
			if cfgs[id] == nil {
				cfgs[id] = &frrConfig{Hostname: fmt.Sprintf("cfg-%d", id)}
			}
			// a fresh but equal value, as createConfig produces on every call
			return &frrConfig{Hostname: cfgs[id].Hostname}
		}
		n := 0
		body := func(cfg *frrConfig) error {
			a := c19Attempt{Start: now(), Cfg: -1}
			if cfg != nil {
				fmt.Sscanf(cfg.Hostname, "cfg-%d", &a.Cfg)
			}
			if c.BodyNs > 0 {
				time.Sleep(time.Duration(c.BodyNs))
			}
			a.OK = !(n < len(c.Fails) && c.Fails[n])
			n++
			attempts = append(attempts, a)
			if !a.OK {
				return errors.New("reload failed")
			}
			return nil
		}
		debouncer(body, reload, time.Duration(c.Debounce), time.Duration(c.Retry), log.NewNopLogger())
		next := 0
		latest := -1
		for _, e := range c.Events {
			time.Sleep(time.Duration(e.Delay))
			ev := reloadEvent{}
			id := -1
			switch e.Kind {
			case 0:
				next++
				latest = next
				id = latest
				ev.config = cfgOf(id)
			case 1:
				if latest < 0 {
					next++
					latest = next
				}
				id = latest
				ev.config = cfgOf(id)
			case 2:
				ev.useOld = true
				id = -2
			case 3:
				id = 1
				if latest < 0 {
					next++
				}
				latest = id
				ev.config = cfgOf(id)
			}
			submitted = append(submitted, id)
			t0 := now()
			reload <- ev
			latency = append(latency, now()-t0)
		}
		// let every retry and the last window elapse
		time.Sleep(time.Duration(int64(len(c.Fails)+3)*(c.Retry+c.BodyNs) + 3*c.Debounce))
		close(reload)
		synctest.Wait()
	})
	return
}

// c19Model is the reference: returns the expected attempts given the submission
// completion times it derives itself. tieFirst chooses, when a submission and the
// timer are due at the same instant, which one the select takes (bit i of tieMask for the i-th tie).
func c19Model(c c19Case, submitted []int, tieMask uint64) (attempts []c19Attempt, ties int) {
	stored := -1 // id of the stored configuration (-1 none)
	timer := int64(-1)
	busyUntil := int64(-1)
	nAttempt := 0
	t := int64(0) // completion time of the previous submission
	fire := func(at int64) {
		a := c19Attempt{Start: at, Cfg: stored}
		a.OK = !(nAttempt < len(c.Fails) && c.Fails[nAttempt])
		nAttempt++
		attempts = append(attempts, a)
		busyUntil = at + c.BodyNs
		if a.OK {
			timer = -1
		} else {
			timer = busyUntil + c.Retry
		}
	}
	for i, e := range c.Events {
		startSend := t + e.Delay
		// timers due strictly before the send are served first
		for timer >= 0 && timer < startSend {
			fire(timer)
		}
		done := startSend
		if timer >= 0 && timer == startSend {
			ties++
			if tieMask&(1<<uint(ties-1)) != 0 {
				fire(timer) // the select took the timer: the sender waits for the body
			}
		}
		if busyUntil > done {
			done = busyUntil
		}
		// the debouncer receives the event at `done`
		id := submitted[i]
		switch {
		case id == -2: // useOld
			if stored >= 0 && timer < 0 {
				timer = done + c.Debounce
			}
		case id == stored:
			// identical configuration: ignored
		default:
			stored = id
			if timer < 0 {
				timer = done + c.Debounce
			}
		}
		t = done
	}
	for timer >= 0 {
		fire(timer)
	}
	return
}

func TestVerifC19Debounce(t *testing.T) {
	vw.Run(t, vw.Options{Property: "C19", Engine: "frr-debouncer",
		Rule:        "1..12 submissions (new configuration, identical resubmission, re-apply request, older configuration) at inter-arrival times chosen around the debounce (3 s) and retry (5 s) intervals (+-1 ns, equal, halves, multiples), a finite failure pattern of the reload action and an action duration of 0..4 s, all on the virtual clock of testing/synctest; non-trivial = >=1 failure consumed and >=2 submissions",
		Assumptions: []string{"go1.26.8 testing/synctest: the code under test (time, channels, select) behaves as under go1.23", "when a submission and the timer are due at the same instant either order of the select is accepted"}},
		genC19,
		func(c c19Case, tr *vw.Trace) *vw.Violation {
			got, latency, submitted := c19Observe(t, c)
			failsUsed := 0
			for _, a := range got {
				if !a.OK {
					failsUsed++
				}
			}
			if failsUsed > 0 && len(c.Events) >= 2 {
				tr.NonTrivial()
			}
			if failsUsed > 0 {
				tr.Class("retry")
			}
			for i, l := range latency {
				if l > c.BodyNs {
					return vw.Violationf("submitter-blocked", "submission %d was blocked for %v (the reload action takes %v)", i, time.Duration(l), time.Duration(c.BodyNs))
				}
			}
			// compare with the model (all tie resolutions)
			// a tie can occur at every submission, and how many occur depends on how earlier ties were resolved
			ties := len(c.Events)
			if ties > 12 {
				ties = 12
			}
			var want []c19Attempt
			for mask := uint64(0); mask < 1<<uint(ties); mask++ {
				w, _ := c19Model(c, submitted, mask)
				if fmt.Sprint(w) == fmt.Sprint(got) {
					return c19Invariants(c, got, submitted, tr)
				}
				if mask == 0 {
					want = w
				}
			}
			return vw.Violationf("reload-sequence-differs", "submissions %v (kinds/delays %+v, action %v, failures %v): the debouncer made attempts %v, the reference model expects %v (attempt = {start ns, configuration id, ok})", submitted, c.Events, time.Duration(c.BodyNs), c.Fails, got, want)
		})
}

// c19Invariants re-states the clauses of the property directly on the observed sequence.
func c19Invariants(c c19Case, got []c19Attempt, submitted []int, tr *vw.Trace) *vw.Violation {
	last := -1
	for _, id := range submitted {
		if id >= 0 {
			last = id
		}
	}
	if last >= 0 {
		ok := false
		for i := len(got) - 1; i >= 0; i-- {
			if got[i].OK {
				ok = got[i].Cfg == last
				break
			}
		}
		if !ok && len(c.Fails) <= len(got) {
			return vw.Violationf("latest-not-applied", "the last successfully applied configuration is not the most recently submitted one (%d): attempts %v", last, got)
		}
	}
	for i := 0; i+1 < len(got); i++ {
		if !got[i].OK && got[i+1].Start != got[i].Start+c.BodyNs+c.Retry {
			return vw.Violationf("retry-timing", "failed attempt at %d was retried at %d, expected %d", got[i].Start, got[i+1].Start, got[i].Start+c.BodyNs+c.Retry)
		}
	}
	if len(got) == 1 && len(submitted) > 1 {
		tr.Class("coalesced")
	}
	return nil
}

// ---- the real reload action behind the debouncer ------------------------------------------------
//
// Same generated submissions / failure patterns, but the action is the real
// generateAndReloadConfigFile (template -> write file -> signal the reloader), with only the
// signalling step (the package variable reloadConfig) replaced by a scripted one that fails
// according to the pattern and records which file content it was asked to load.

func TestVerifC19Reload(t *testing.T) {
	dir := t.TempDir()
	file := dir + "/frr.conf"
	t.Setenv("FRR_CONFIG_FILE", file)
	vw.Run(t, vw.Options{Property: "C19", Engine: "frr-reload",
		Rule:        "as frr-debouncer, with the real generateAndReloadConfigFile as the action and a scripted reloader signal that fails per the pattern; after the failures stop the reloader must have been signalled successfully while the file held the rendering of the most recently submitted configuration; non-trivial = >=1 failed signal",
		Assumptions: []string{"go1.26.8 testing/synctest", "the file on disk is what FRR loads when signalled"}},
		func(rt *rapid.T) c19Case {
			c := genC19(rt)
			c.BodyNs = 0
			return c
		},
		func(c c19Case, tr *vw.Trace) *vw.Violation {
			type sig struct {
				content string
				ok      bool
			}
			var sigs []sig
			lastSubmitted := ""
			var verdict *vw.Violation
			oldReload := reloadConfig
			defer func() { reloadConfig = oldReload }()
			_ = os.Remove(file)
			synctest.Test(t, func(t *testing.T) {
				n := 0
				reloadConfig = func() error {
					b, _ := os.ReadFile(file)
					ok := !(n < len(c.Fails) && c.Fails[n])
					n++
					sigs = append(sigs, sig{string(b), ok})
					if !ok {
						return errors.New("reloader not reachable")
					}
					return nil
				}
				reload := make(chan reloadEvent)
				debouncer(func(cfg *frrConfig) error { return generateAndReloadConfigFile(cfg, log.NewNopLogger()) }, reload, time.Duration(c.Debounce), time.Duration(c.Retry), log.NewNopLogger())
				next, latest := 0, -1
				for _, e := range c.Events {
					time.Sleep(time.Duration(e.Delay))
					ev := reloadEvent{}
					switch e.Kind {
					case 0:
						next++
						latest = next
					case 1:
						if latest < 0 {
							next++
							latest = next
						}
					case 2:
						ev.useOld = true
					case 3:
						if latest < 0 {
							next++
						}
						latest = 1
					}
					if !ev.useOld {
						ev.config = &frrConfig{Hostname: fmt.Sprintf("cfg-%d", latest), Loglevel: "informational"}
						lastSubmitted, _ = templateConfig(ev.config)
					}
					reload <- ev
				}
				time.Sleep(time.Duration(int64(len(c.Fails)+3)*c.Retry + 3*c.Debounce))
				close(reload)
				synctest.Wait()
			})
			failed := 0
			for _, s := range sigs {
				if !s.ok {
					failed++
				}
			}
			if failed > 0 {
				tr.NonTrivial()
			}
			if lastSubmitted == "" {
				return verdict
			}
			for i := len(sigs) - 1; i >= 0; i-- {
				if sigs[i].ok {
					if sigs[i].content != lastSubmitted {
						return vw.Violationf("latest-not-loaded", "the last successful reloader signal was sent while the file held another configuration than the most recently submitted one (signals: %d, failed: %d)", len(sigs), failed)
					}
					return nil
				}
			}
			return vw.Violationf("never-loaded", "a configuration was submitted and the failures stopped (pattern %v), but the reloader was never signalled successfully (%d signals, %d failed)", c.Fails, len(sigs), failed)
		})
}

// ---- the whole session manager in front of the debouncer ------------------------------------------
//
// The submissions are the ones the real sessionManager produces (NewSession / Set / Close /
// SyncBFDProfiles / SyncExtraInfo each assemble a configuration and hand it to the debouncer), so
// a submission that shares memory with an earlier one - and therefore "equals" it when the debouncer
// compares - is within reach. Oracle: differential against a fresh manager that is given only the
// final state and renders it directly.

type c19mOp struct {
	Kind    string `json:"kind"` // new | set | close | bfd | extra | sleep
	Session int    `json:"session,omitempty"`
	Advs    int    `json:"advs,omitempty"`    // set: 0 = the session's own list, 1 = its prior list, 2 = empty
	Variant int    `json:"variant,omitempty"` // bfd / extra: which value
	DelayNs int64  `json:"delay_ns,omitempty"`
}

type c19mCase struct {
	Sessions []vw.BGPSession `json:"sessions"`
	Prior    [][]vw.BGPAdv   `json:"prior"`
	Ops      []c19mOp        `json:"ops"`
	Fails    []bool          `json:"fails"`
}

var c19mBFD = []map[string][]uint32{
	{},
	{"p1": {100, 100}},
	{"p1": {200, 100}},
	{"p1": {100, 300}},
	{"p1": {100, 100}, "p2": {50, 50}},
	{"p2": {50, 50}},
	{"p2": {60, 50}},
}

var c19mExtra = []string{"", "# extra A", "# extra B"}

func c19mProfiles(v int) map[string]*metallbconfig.BFDProfile {
	out := map[string]*metallbconfig.BFDProfile{}
	for name, iv := range c19mBFD[v%len(c19mBFD)] {
		rx, tx := iv[0], iv[1]
		out[name] = &metallbconfig.BFDProfile{Name: name, ReceiveInterval: &rx, TransmitInterval: &tx}
	}
	return out
}

func genC19M(rt *rapid.T) c19mCase {
	c := c19mCase{Sessions: vw.GenBGPSessions(rt, false)}
	for _, s := range c.Sessions {
		c.Prior = append(c.Prior, vw.GenPriorAdvs(rt, s.Advs))
	}
	delays := []int64{0, 0, 1, int64(time.Second), int64(3*time.Second) - 1, int64(3 * time.Second), int64(3*time.Second) + 1, int64(5 * time.Second), int64(9 * time.Second)}
	for i, n := 0, rapid.IntRange(2, 14).Draw(rt, "nops"); i < n; i++ {
		op := c19mOp{Session: rapid.IntRange(0, 5).Draw(rt, "session")}
		switch k := rapid.IntRange(0, 11).Draw(rt, "opK"); {
		case k <= 1:
			op.Kind = "new"
		case k <= 4:
			op.Kind, op.Advs = "set", rapid.IntRange(0, 2).Draw(rt, "advs")
		case k == 5:
			op.Kind = "close"
		case k <= 8:
			op.Kind, op.Variant = "bfd", rapid.IntRange(0, len(c19mBFD)-1).Draw(rt, "bfd")
		case k == 9:
			op.Kind, op.Variant = "extra", rapid.IntRange(0, len(c19mExtra)-1).Draw(rt, "extra")
		default:
			op.Kind = "sleep"
		}
		op.DelayNs = rapid.SampledFrom(delays).Draw(rt, "delay")
		c.Ops = append(c.Ops, op)
	}
	for i, n := 0, rapid.IntRange(0, 4).Draw(rt, "nfails"); i < n; i++ {
		c.Fails = append(c.Fails, rapid.IntRange(0, 2).Draw(rt, "fail") == 0)
	}
	return c
}

func runC19M(t *testing.T, c c19mCase, tr *vw.Trace) (viol *vw.Violation) {
	if len(c.Sessions) == 0 {
		return nil
	}
	osHostname = func() (string, error) { return "verif-host", nil }
	newMgr := func(buffered int) *sessionManager {
		return &sessionManager{sessions: map[string]*session{}, bfdProfiles: []BFDProfile{}, reloadConfig: make(chan reloadEvent, buffered), logLevel: "informational"}
	}
	advsOf := func(i, which int) []*bgp.Advertisement {
		s := c.Sessions[i]
		switch which {
		case 1:
			s.Advs = c.Prior[i]
		case 2:
			s.Advs = nil
		}
		return VerifAdvs(s, nil)
	}
	// final state, tracked by the harness
	alive := map[int]bool{}
	lastAdvs := map[int]int{}
	bfd, extra := 0, 0
	submitted := 0
	var applied []string
	failed := 0
	synctest.Test(t, func(t *testing.T) {
		sm := newMgr(0)
		n := 0
		body := func(cfg *frrConfig) error {
			text, err := templateConfig(cfg)
			if err != nil {
				return err
			}
			fail := n < len(c.Fails) && c.Fails[n]
			n++
			if fail {
				failed++
				return errors.New("reload failed")
			}
			applied = append(applied, text)
			return nil
		}
		debouncer(body, sm.reloadConfig, debounceTimeout, failureTimeout, log.NewNopLogger())
		handles := map[int]bgp.Session{}
		for _, op := range c.Ops {
			time.Sleep(time.Duration(op.DelayNs))
			i := op.Session % len(c.Sessions)
			switch op.Kind {
			case "new":
				if alive[i] {
					continue
				}
				h, err := sm.NewSession(log.NewNopLogger(), VerifParams(c.Sessions[i]))
				if err != nil {
					viol = vw.Violationf("new-session-error", "%v", err)
					return
				}
				handles[i], alive[i], lastAdvs[i] = h, true, 2
				submitted++
			case "set":
				if !alive[i] {
					continue
				}
				if err := handles[i].Set(advsOf(i, op.Advs)...); err != nil {
					continue // refused (conflicting local preferences across the lists): nothing changes
				}
				lastAdvs[i] = op.Advs
				submitted++
			case "close":
				if !alive[i] {
					continue
				}
				if err := handles[i].Close(); err != nil {
					viol = vw.Violationf("close-error", "%v", err)
					return
				}
				delete(alive, i)
				submitted++
			case "bfd":
				if err := sm.SyncBFDProfiles(c19mProfiles(op.Variant)); err != nil {
					viol = vw.Violationf("bfd-error", "%v", err)
					return
				}
				if op.Variant != bfd {
					tr.Class("bfd-profiles-changed")
				}
				bfd = op.Variant
				submitted++
			case "extra":
				if err := sm.SyncExtraInfo(c19mExtra[op.Variant%len(c19mExtra)]); err != nil {
					viol = vw.Violationf("extra-error", "%v", err)
					return
				}
				extra = op.Variant
				submitted++
			}
		}
		// let the window, every retry and one more window elapse
		time.Sleep(time.Duration(len(c.Fails)+3)*failureTimeout + 3*debounceTimeout)
		close(sm.reloadConfig)
		synctest.Wait()
	})
	if viol != nil || submitted == 0 {
		return viol
	}
	// reference: a fresh manager given only the final state
	ref := newMgr(4096)
	for i := range c.Sessions {
		if !alive[i] {
			continue
		}
		h, err := ref.NewSession(log.NewNopLogger(), VerifParams(c.Sessions[i]))
		if err != nil {
			return nil
		}
		if err := h.Set(advsOf(i, lastAdvs[i])...); err != nil {
			return nil // the final combination is one the manager refuses when built from scratch: no reference
		}
	}
	if err := ref.SyncBFDProfiles(c19mProfiles(bfd)); err != nil {
		return nil
	}
	if err := ref.SyncExtraInfo(c19mExtra[extra%len(c19mExtra)]); err != nil {
		return nil
	}
	cfg, err := ref.createConfig()
	if err != nil {
		return nil
	}
	want, err := templateConfig(cfg)
	if err != nil {
		return nil
	}
	if failed > 0 {
		tr.Class("reload-failures-consumed")
	}
	if submitted >= 3 {
		tr.NonTrivial()
	}
	if len(applied) == 0 {
		return vw.Violationf("nothing-applied", "%d configuration(s) were submitted by the session manager and none was applied although the failures stopped", submitted)
	}
	if got := applied[len(applied)-1]; got != want {
		return vw.Violationf("latest-not-applied", "after %d submissions the last applied configuration differs from the rendering of the final state (sessions alive %v, BFD variant %d, extra %d):\n--- last applied\n%s\n--- final state\n%s", submitted, alive, bfd, extra, got, want)
	}
	return nil
}

func TestVerifC19Manager(t *testing.T) {
	vw.Run(t, vw.Options{Property: "C19", Engine: "frr-manager",
		Rule:        "2..14 calls into the real FRR sessionManager (NewSession, Set with the session's own / an earlier / an empty advertisement list, Close, SyncBFDProfiles over 7 profile sets incl. same-size edits, SyncExtraInfo) at inter-arrival times around the 3 s debounce and 5 s retry intervals, with the real debouncer and a reload action that renders the configuration and fails per a finite pattern, on the virtual clock; after the failures stop the last applied rendering must equal what a fresh manager renders for the final state; non-trivial = >=3 submissions",
		Assumptions: []string{"go1.26.8 testing/synctest", "a Set the manager refuses (conflicting local preferences) changes nothing"}},
		genC19M,
		func(c c19mCase, tr *vw.Trace) *vw.Violation { return runC19M(t, c, tr) })
}
