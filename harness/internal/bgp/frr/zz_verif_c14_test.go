//go:build verif

package frr

// C14 — the generated FRR configuration, interpreted with FRR semantics, offers each
// neighbor exactly what was requested (interpreter: zz_verif_interp.go).

import (
	"fmt"
	"strconv"
	"testing"

	vw "go.universe.tf/metallb/internal/verifworld"
	"pgregory.net/rapid"
)

type c14Case struct {
	Sessions []vw.BGPSession `json:"sessions"`
	Order    []int           `json:"order"`
	AdvPerm  [][]int         `json:"adv_perm"`
	Churn    []int           `json:"churn"`
	Prior    [][]vw.BGPAdv   `json:"prior"`              // per session: an earlier advertisement list (nil = none)
	Rejected []VerifRejected `json:"rejected,omitempty"` // Set calls that must be refused and change nothing
}

func c14Perm(rt *rapid.T, n int, label string) []int {
	idx := make([]int, n)
	for i := range idx {
		idx[i] = i
	}
	if n < 2 {
		return idx
	}
	return rapid.Permutation(idx).Draw(rt, label)
}

func genC14(rt *rapid.T) c14Case {
	c := c14Case{Sessions: vw.GenBGPSessions(rt, false)}
	c.Order = c14Perm(rt, len(c.Sessions), "order")
	for _, s := range c.Sessions {
		c.AdvPerm = append(c.AdvPerm, c14Perm(rt, len(s.Advs), "advperm"))
	}
	c.Churn = rapid.SliceOfN(rapid.IntRange(0, 4), 0, 3).Draw(rt, "churn")
	for _, s := range c.Sessions {
		c.Prior = append(c.Prior, vw.GenPriorAdvs(rt, s.Advs))
	}
	if len(c.Sessions) > 0 {
		for i, n := 0, rapid.IntRange(0, 2).Draw(rt, "nrejected"); i < n; i++ {
			j := rapid.IntRange(0, len(c.Sessions)-1).Draw(rt, "rejSession")
			advs := vw.GenPriorAdvs(rt, c.Sessions[j].Advs)
			c.Rejected = append(c.Rejected, VerifRejected{Session: j, Kind: rapid.IntRange(0, 1).Draw(rt, "rejKind"), Advs: advs})
		}
	}
	return c
}

func runC14(c c14Case, tr *vw.Trace) *vw.Violation {
	if len(c.Sessions) == 0 {
		return nil
	}
	text, err := VerifRender(c.Sessions, nil, nil, nil)
	if err != nil {
		return vw.Violationf("render-error", "rendering %d valid sessions failed: %v", len(c.Sessions), err)
	}
	cfg, err := VerifInterpret(text)
	if err != nil {
		panic("verif-inconclusive: interpreter does not know a construct: " + err.Error())
	}
	// determinism: creation order, advertisement order, close/re-create history
	text2, err := VerifRenderR(c.Sessions, c.Order, c.AdvPerm, c.Churn, c.Rejected, c.Prior)
	if err != nil {
		return vw.Violationf("render-error", "rendering (permuted) failed: %v", err)
	}
	if len(c.Rejected) > 0 {
		tr.Class("history-with-refused-set")
	}
	if text2 != text {
		return vw.Violationf("text-depends-on-order", "the configuration text depends on creation order / advertisement order / earlier (accepted or refused) Set calls / session churn:\n--- canonical\n%s\n--- permuted (order %v churn %v)\n%s", text, c.Order, c.Churn, text2)
	}
	subset, repeated := false, false
	all := map[string]bool{}
	for _, s := range c.Sessions {
		for p := range s.Requested() {
			all[s.VRF+"|"+p] = true
		}
	}
	for _, s := range c.Sessions {
		r := cfg.Router(s.MyASN, s.VRF)
		if r == nil {
			return vw.Violationf("router-missing", "no `router bgp %d vrf %q` for session %s", s.MyASN, s.VRF, s.Name)
		}
		if s.RouterID != "" && r.RouterID != s.RouterID {
			return vw.Violationf("router-id", "router %s has router-id %q, want %q", r.ASN, r.RouterID, s.RouterID)
		}
		peer := s.Addr
		if s.Iface != "" {
			peer = s.Iface
		}
		n := r.Neighbors[peer]
		if n == nil {
			return vw.Violationf("neighbor-missing", "no neighbor %s in router %d/%q", peer, s.MyASN, s.VRF)
		}
		// session parameters on the right neighbor
		wantAS := strconv.FormatUint(uint64(s.PeerASN), 10)
		if s.DynamicASN != "" {
			wantAS = s.DynamicASN
		}
		wantCC := false
		if (s.PeerV6() || s.Iface != "") && !s.Multihop {
			switch {
			case s.Iface != "":
				wantCC = true
			case s.DynamicASN == "internal":
			case s.DynamicASN == "external":
				wantCC = true
			default:
				wantCC = s.PeerASN != s.MyASN
			}
		}
		got := fmt.Sprintf("as=%s iface=%v port=%d timers=%d/%d connect=%d pw=%q src=%q mh=%v bfd=%q gr=%v", n.RemoteAS, n.Interface, n.Port, n.Keepalive, n.Hold, n.Connect, n.Password, n.UpdateSource, n.Multihop, n.BFDProfile, n.Graceful)
		want := fmt.Sprintf("as=%s iface=%v port=%d timers=%d/%d connect=%d pw=%q src=%q mh=%v bfd=%q gr=%v", wantAS, s.Iface != "", int(s.Port), s.KeepSec, s.HoldSec, s.ConnectSec, s.Password, s.Src, s.Multihop, s.BFD, s.Graceful)
		if got != want {
			return vw.Violationf("session-parameters", "neighbor %s of session %s: configured [%s], requested [%s]", peer, s.Name, got, want)
		}
		if s.Iface == "" && n.DisableCC != wantCC {
			return vw.Violationf("disable-connected-check", "neighbor %s: disable-connected-check=%v, expected %v", peer, n.DisableCC, wantCC)
		}
		v4, v6 := s.Activated()
		a4 := n.AF["ipv4"] != nil && n.AF["ipv4"].activate
		a6 := n.AF["ipv6"] != nil && n.AF["ipv6"].activate
		if a4 != v4 || a6 != v6 {
			return vw.Violationf("family-activation", "neighbor %s (disableMP=%v): activated ipv4=%v ipv6=%v, expected %v %v", peer, s.DisableMP, a4, a6, v4, v6)
		}
		offered, notes := cfg.Offered(r, n)
		if len(notes) > 0 {
			return vw.Violationf("inbound-not-rejected", "%v", notes)
		}
		req := s.Requested()
		if !offered.Equal(req) {
			return vw.Violationf("offered-differs-from-requested", "neighbor %s (session %s, vrf %q): FRR would offer [%s], requested [%s]\n%s", peer, s.Name, s.VRF, offered, req, text)
		}
		for k := range all {
			if len(k) > len(s.VRF) && k[:len(s.VRF)+1] == s.VRF+"|" {
				if _, ok := req[k[len(s.VRF)+1:]]; !ok {
					subset = true
				}
			}
		}
		seen := map[string]string{}
		for _, a := range s.Advs {
			key := fmt.Sprint(a.Comms)
			if prev, ok := seen[a.Prefix]; ok && prev != key {
				repeated = true
			}
			seen[a.Prefix] = key
		}
	}
	// the router originates exactly the union of the requested prefixes
	for _, r := range cfg.Routers {
		want := map[string]bool{}
		for _, s := range c.Sessions {
			if strconv.FormatUint(uint64(s.MyASN), 10) == r.ASN && s.VRF == r.VRF {
				for _, a := range s.Advs {
					want[a.Prefix] = true
				}
			}
		}
		got := map[string]bool{}
		for _, ps := range r.Networks {
			for _, p := range ps {
				if got[p] {
					return vw.Violationf("network-duplicated", "router %s/%q originates %s twice", r.ASN, r.VRF, p)
				}
				got[p] = true
			}
		}
		if fmt.Sprint(sortedSet(got)) != fmt.Sprint(sortedSet(want)) {
			return vw.Violationf("networks-differ", "router %s/%q originates %v, union of requested prefixes is %v", r.ASN, r.VRF, sortedSet(got), sortedSet(want))
		}
	}
	if subset {
		tr.Class("prefix-offered-to-strict-subset")
	}
	if repeated {
		tr.Class("repeated-prefix-different-communities")
	}
	if (len(c.Sessions) >= 2 && subset) || repeated {
		tr.NonTrivial()
	}
	return nil
}

func sortedSet(m map[string]bool) []string {
	var out []string
	for k := range m {
		out = append(out, k)
	}
	for i := range out {
		for j := i + 1; j < len(out); j++ {
			if out[j] < out[i] {
				out[i], out[j] = out[j], out[i]
			}
		}
	}
	return out
}

func TestVerifC14Config(t *testing.T) {
	vw.Run(t, vw.Options{Property: "C14", Engine: "frr-config",
		Rule: "1..5 sessions over <=3 VRFs (v4 / v6 / unnumbered, iBGP / eBGP / dynamic ASN, port, timers, connect time, password, source, multihop, BFD profile, graceful restart, disableMP), 0..8 advertisements each from a 6-prefix v4+v6 alphabet with legacy and large communities and local preferences; real NewSession/Set/Close -> createConfig -> templateConfig; the text is parsed and evaluated by the harness's FRR interpreter; non-trivial = >=2 neighbors with a prefix offered to a strict subset, or a repeated prefix with different communities",
		Assumptions: []string{"sessions satisfy what the configuration layer guarantees in FRR mode (one router id, one local ASN per VRF, unique (peer, VRF), one local preference per prefix and session)",
			"FRR semantics as written in the header of zz_verif_interp.go; an unknown construct makes the run inconclusive, not a violation",
			"with disableMP a session carries only the family of its peer address"}},
		genC14, runC14)
}

// C05 through this backend: what each neighbor of the generated FRR configuration is offered must be exactly what
// was requested on its session.
func TestVerifC05FRR(t *testing.T) {
	vw.Run(t, vw.Options{Property: "C05", Engine: "frr-backend",
		Rule:        "the session sets and advertisement histories of the C14 engine through the real FRR session manager and templates; the interpreter's per-neighbor offered routes (prefix, local preference, communities) must equal the request of that session; non-trivial as in C14",
		Assumptions: []string{"FRR semantics as written in the header of zz_verif_interp.go", "the speaker hands each session the advertisements of its peer (judged by the C05 speaker engine)"}},
		genC14, runC14)
}
