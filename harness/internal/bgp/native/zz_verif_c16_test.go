//go:build verif

package native

// C16 — native BGP wire format. Oracle: an independent RFC 4271 decoder
// (rfcDecode* below) that shares no code with messages.go.

import (
	"bytes"
	"encoding/binary"
	"fmt"
	"io"
	"net"
	"os"
	"sort"
	"testing"
	"time"

	"go.universe.tf/metallb/internal/bgp"
	"go.universe.tf/metallb/internal/bgp/community"
	vw "go.universe.tf/metallb/internal/verifworld"
	"pgregory.net/rapid"
)

func init() {
	// readOpen carries a debugging fmt.Printf; keep the shard output small.
	if os.Getenv("VERIF_KEEP_STDOUT") == "" {
		if f, err := os.OpenFile(os.DevNull, os.O_WRONLY, 0); err == nil {
			os.Stdout = f
		}
	}
}

// ---------------------------------------------------------------- decoder

type rfcMsg struct {
	Type uint8
	Len  int
	Body []byte
}

// rfcSplit splits a byte stream in BGP messages (header checks only).
func rfcSplit(b []byte) ([]rfcMsg, error) {
	var out []rfcMsg
	for len(b) > 0 {
		if len(b) < 19 {
			return out, fmt.Errorf("short header: %d bytes", len(b))
		}
		for i := 0; i < 16; i++ {
			if b[i] != 0xff {
				return out, fmt.Errorf("bad marker byte %d", i)
			}
		}
		l := int(binary.BigEndian.Uint16(b[16:18]))
		if l < 19 || l > 4096 {
			return out, fmt.Errorf("bad length %d", l)
		}
		if l > len(b) {
			return out, fmt.Errorf("length %d exceeds the %d bytes written", l, len(b))
		}
		out = append(out, rfcMsg{Type: b[18], Len: l, Body: b[19:l]})
		b = b[l:]
	}
	return out, nil
}

type rfcOpen struct {
	Version  uint8
	ASN16    uint16
	Hold     uint16
	ID       [4]byte
	Caps     [][2]interface{} // code, value
	ASN32    *uint32
	MP       [][2]uint16
	OptTypes []uint8
}

func rfcDecodeOpen(body []byte) (*rfcOpen, error) {
	if len(body) < 10 {
		return nil, fmt.Errorf("OPEN body too short: %d", len(body))
	}
	o := &rfcOpen{Version: body[0], ASN16: binary.BigEndian.Uint16(body[1:3]), Hold: binary.BigEndian.Uint16(body[3:5])}
	copy(o.ID[:], body[5:9])
	optLen := int(body[9])
	opts := body[10:]
	if optLen != len(opts) {
		return nil, fmt.Errorf("OPEN optional parameters length %d but %d bytes follow", optLen, len(opts))
	}
	for len(opts) > 0 {
		if len(opts) < 2 {
			return nil, fmt.Errorf("truncated option header")
		}
		t, l := opts[0], int(opts[1])
		if len(opts) < 2+l {
			return nil, fmt.Errorf("option length %d exceeds remaining %d", l, len(opts)-2)
		}
		val := opts[2 : 2+l]
		opts = opts[2+l:]
		o.OptTypes = append(o.OptTypes, t)
		if t != 2 {
			continue
		}
		for len(val) > 0 {
			if len(val) < 2 {
				return nil, fmt.Errorf("truncated capability header")
			}
			c, cl := val[0], int(val[1])
			if len(val) < 2+cl {
				return nil, fmt.Errorf("capability length %d exceeds remaining %d", cl, len(val)-2)
			}
			cv := val[2 : 2+cl]
			val = val[2+cl:]
			switch c {
			case 65:
				if cl != 4 {
					return nil, fmt.Errorf("4-byte ASN capability with length %d", cl)
				}
				v := binary.BigEndian.Uint32(cv)
				o.ASN32 = &v
			case 1:
				if cl != 4 {
					return nil, fmt.Errorf("MP capability with length %d", cl)
				}
				o.MP = append(o.MP, [2]uint16{binary.BigEndian.Uint16(cv[0:2]), uint16(cv[3])})
			}
		}
	}
	return o, nil
}

type rfcAttr struct {
	Flags uint8
	Type  uint8
	Val   []byte
}

type rfcUpdate struct {
	Withdrawn []string // "a.b.c.d/len" with host bits as sent
	Attrs     []rfcAttr
	NLRI      []string
}

func rfcDecodePrefixes(b []byte) ([]string, error) {
	var out []string
	for len(b) > 0 {
		l := int(b[0])
		if l > 32 {
			return nil, fmt.Errorf("prefix length %d", l)
		}
		n := (l + 7) / 8
		if len(b) < 1+n {
			return nil, fmt.Errorf("truncated prefix: need %d bytes, have %d", n, len(b)-1)
		}
		var ip [4]byte
		copy(ip[:], b[1:1+n])
		out = append(out, fmt.Sprintf("%d.%d.%d.%d/%d", ip[0], ip[1], ip[2], ip[3], l))
		b = b[1+n:]
	}
	return out, nil
}

func rfcDecodeUpdate(body []byte) (*rfcUpdate, error) {
	u := &rfcUpdate{}
	if len(body) < 4 {
		return nil, fmt.Errorf("UPDATE body too short: %d", len(body))
	}
	wl := int(binary.BigEndian.Uint16(body[0:2]))
	if 2+wl+2 > len(body) {
		return nil, fmt.Errorf("withdrawn routes length %d exceeds body %d", wl, len(body))
	}
	var err error
	if u.Withdrawn, err = rfcDecodePrefixes(body[2 : 2+wl]); err != nil {
		return nil, fmt.Errorf("withdrawn: %v", err)
	}
	al := int(binary.BigEndian.Uint16(body[2+wl : 4+wl]))
	if 4+wl+al > len(body) {
		return nil, fmt.Errorf("path attribute length %d exceeds body", al)
	}
	attrs := body[4+wl : 4+wl+al]
	for len(attrs) > 0 {
		if len(attrs) < 3 {
			return nil, fmt.Errorf("truncated attribute header")
		}
		fl, ty := attrs[0], attrs[1]
		var l, h int
		if fl&0x10 != 0 {
			if len(attrs) < 4 {
				return nil, fmt.Errorf("truncated extended attribute header")
			}
			l, h = int(binary.BigEndian.Uint16(attrs[2:4])), 4
		} else {
			l, h = int(attrs[2]), 3
		}
		if len(attrs) < h+l {
			return nil, fmt.Errorf("attribute %d length %d exceeds remaining %d", ty, l, len(attrs)-h)
		}
		u.Attrs = append(u.Attrs, rfcAttr{fl, ty, attrs[h : h+l]})
		attrs = attrs[h+l:]
	}
	if u.NLRI, err = rfcDecodePrefixes(body[4+wl+al:]); err != nil {
		return nil, fmt.Errorf("nlri: %v", err)
	}
	return u, nil
}

// ---------------------------------------------------------------- send side

type c16Update struct {
	IP       [4]byte   `json:"ip"`
	Bits     int       `json:"bits"`
	IP16     bool      `json:"ip16"` // hand the prefix over in 16-byte form
	Masked   bool      `json:"masked"`
	ASN      uint32    `json:"asn"`
	IBGP     bool      `json:"ibgp"`
	FBASN    bool      `json:"fbasn"`
	NextHop  [4]byte   `json:"nh"`
	LP       uint32    `json:"lp"`
	Comms    []uint32  `json:"comms"`
	Large    int       `json:"large"`    // index at which a large community is inserted, -1 none
	Withdraw int       `json:"withdraw"` // >0: also test sendWithdraw with that many prefixes
	WdrIPs   [][4]byte `json:"wips"`
	WdrBits  []int     `json:"wbits"`
}

var asnBoundary = []uint32{1, 2, 255, 256, 23455, 23456, 23457, 32767, 32768, 65534, 65535, 65536, 65537, 131072, 4199999999, 4200000000, 4294967294, 4294967295}

func genASN(rt *rapid.T, label string) uint32 {
	if rapid.Bool().Draw(rt, label+"B") {
		return rapid.SampledFrom(asnBoundary).Draw(rt, label)
	}
	return rapid.Uint32().Draw(rt, label)
}

func gen4(rt *rapid.T, label string) [4]byte {
	v := rapid.Uint32().Draw(rt, label)
	if rapid.IntRange(0, 3).Draw(rt, label+"K") == 0 {
		v = rapid.SampledFrom([]uint32{0, 0xffffffff, 0xff000000, 0x000000ff, 0x80000000, 0x0a000001}).Draw(rt, label+"C")
	}
	var b [4]byte
	binary.BigEndian.PutUint32(b[:], v)
	return b
}

func genC16Update(rt *rapid.T) c16Update {
	c := c16Update{IP: gen4(rt, "ip"), Bits: rapid.IntRange(0, 32).Draw(rt, "bits"), IP16: rapid.Bool().Draw(rt, "ip16"),
		Masked: rapid.IntRange(0, 2).Draw(rt, "masked") > 0,
		ASN:    genASN(rt, "asn"), IBGP: rapid.Bool().Draw(rt, "ibgp"), FBASN: rapid.Bool().Draw(rt, "fbasn"),
		NextHop: gen4(rt, "nh"), LP: rapid.Uint32().Draw(rt, "lp"), Large: -1}
	n := rapid.SampledFrom([]int{0, 0, 1, 2, 3, 5, 17, 62, 63, 64, 70}).Draw(rt, "ncomm")
	for i := 0; i < n; i++ {
		c.Comms = append(c.Comms, rapid.Uint32().Draw(rt, "comm"))
	}
	if n > 0 && rapid.IntRange(0, 19).Draw(rt, "largeK") == 0 {
		c.Large = rapid.IntRange(0, n-1).Draw(rt, "large")
	}
	if rapid.IntRange(0, 2).Draw(rt, "wdrK") == 0 {
		c.Withdraw = rapid.IntRange(1, 6).Draw(rt, "wdr")
		for i := 0; i < c.Withdraw; i++ {
			c.WdrIPs = append(c.WdrIPs, gen4(rt, "wip"))
			c.WdrBits = append(c.WdrBits, rapid.IntRange(0, 32).Draw(rt, "wbits"))
		}
	}
	return c
}

func mkNet(ip [4]byte, bits int, masked, ip16 bool) *net.IPNet {
	m := net.CIDRMask(bits, 32)
	p := net.IP(append([]byte{}, ip[:]...))
	if ip16 {
		p = p.To16()
	}
	if masked {
		p = p.Mask(m) // what speaker/bgp_controller.go hands over
	}
	return &net.IPNet{IP: p, Mask: m}
}

func maskStr(ip [4]byte, bits int) string {
	m := net.CIDRMask(bits, 32)
	p := net.IP(ip[:]).Mask(m)
	return fmt.Sprintf("%d.%d.%d.%d/%d", p[0], p[1], p[2], p[3], bits)
}

// canon masks the host bits of a decoded prefix (RFC 4271: trailing bits are irrelevant).
func canon(s string) string {
	_, n, err := net.ParseCIDR(s)
	if err != nil {
		return "bad:" + s
	}
	return n.String()
}

func mkComm(v uint32) community.BGPCommunity {
	c, err := community.New(fmt.Sprintf("%d:%d", v>>16, v&0xffff))
	if err != nil {
		panic(err)
	}
	return c
}

func runC16Update(c c16Update, tr *vw.Trace) *vw.Violation {
	adv := &bgp.Advertisement{Prefix: mkNet(c.IP, c.Bits, c.Masked, c.IP16), LocalPref: c.LP}
	for i, v := range c.Comms {
		if i == c.Large {
			l, _ := community.New("large:1:2:3")
			adv.Communities = append(adv.Communities, l)
			continue
		}
		adv.Communities = append(adv.Communities, mkComm(v))
	}
	if c.Bits%8 != 0 || c.ASN > 65535 || len(c.Comms) > 0 {
		tr.NonTrivial()
	}
	var w bytes.Buffer
	err := sendUpdate(&w, c.ASN, c.IBGP, c.FBASN, net.IP(c.NextHop[:]), adv)
	expectErr := c.Large >= 0 || len(c.Comms) > 63 || (!c.IBGP && !c.FBASN && c.ASN > 65535)
	if err != nil {
		tr.Class("update-error")
		if w.Len() != 0 {
			return vw.Violationf("update-error-wrote-bytes", "sendUpdate returned %v but wrote %d bytes", err, w.Len())
		}
		if !expectErr {
			return vw.Violationf("update-unexpected-error", "sendUpdate failed for an encodable route: %v", err)
		}
	} else {
		if expectErr {
			// 64+ communities do not fit the one-byte attribute length the encoder uses, a large
			// community has no RFC 1997 encoding and a 4-byte ASN has no 2-byte form.
			return vw.Violationf("update-should-fail", "sendUpdate accepted an unencodable route (comms=%d large=%d asn=%d fbasn=%v)", len(c.Comms), c.Large, c.ASN, c.FBASN)
		}
		if v := checkUpdateBytes(w.Bytes(), c, tr); v != nil {
			return v
		}
	}
	if c.Withdraw > 0 {
		tr.Class("withdraw")
		var nets []*net.IPNet
		var want []string
		for i := range c.WdrIPs {
			nets = append(nets, mkNet(c.WdrIPs[i], c.WdrBits[i], true, c.IP16))
			want = append(want, maskStr(c.WdrIPs[i], c.WdrBits[i]))
		}
		var w bytes.Buffer
		if err := sendWithdraw(&w, nets); err != nil {
			return vw.Violationf("withdraw-error", "sendWithdraw: %v", err)
		}
		msgs, err := rfcSplit(w.Bytes())
		if err != nil || len(msgs) != 1 {
			return vw.Violationf("withdraw-framing", "withdraw framing: %v (%d messages) % x", err, len(msgs), w.Bytes())
		}
		if msgs[0].Type != 2 {
			return vw.Violationf("withdraw-type", "withdraw has type %d", msgs[0].Type)
		}
		u, err := rfcDecodeUpdate(msgs[0].Body)
		if err != nil {
			return vw.Violationf("withdraw-malformed", "withdraw does not decode: %v % x", err, w.Bytes())
		}
		if len(u.Attrs) != 0 || len(u.NLRI) != 0 {
			return vw.Violationf("withdraw-extra", "withdraw carries attributes or NLRI: %+v", u)
		}
		var got []string
		for _, p := range u.Withdrawn {
			got = append(got, canon(p))
		}
		if fmt.Sprint(got) != fmt.Sprint(want) {
			return vw.Violationf("withdraw-content", "withdrawn %v, intended %v", got, want)
		}
	}
	// KEEPALIVE
	var k bytes.Buffer
	if err := sendKeepalive(&k); err != nil {
		return vw.Violationf("keepalive-error", "%v", err)
	}
	if msgs, err := rfcSplit(k.Bytes()); err != nil || len(msgs) != 1 || msgs[0].Type != 4 || msgs[0].Len != 19 {
		return vw.Violationf("keepalive-malformed", "keepalive % x: %v", k.Bytes(), err)
	}
	return nil
}

func checkUpdateBytes(b []byte, c c16Update, tr *vw.Trace) *vw.Violation {
	msgs, err := rfcSplit(b)
	if err != nil {
		return vw.Violationf("update-framing", "%v: % x", err, b)
	}
	if len(msgs) != 1 {
		return vw.Violationf("update-framing", "%d messages for one sendUpdate", len(msgs))
	}
	if msgs[0].Type != 2 {
		return vw.Violationf("update-type", "type %d", msgs[0].Type)
	}
	u, err := rfcDecodeUpdate(msgs[0].Body)
	if err != nil {
		return vw.Violationf("update-malformed", "UPDATE does not decode: %v: % x", err, b)
	}
	if len(u.Withdrawn) != 0 {
		return vw.Violationf("update-withdrawn", "announcement carries withdrawn routes %v", u.Withdrawn)
	}
	if len(u.NLRI) != 1 || canon(u.NLRI[0]) != maskStr(c.IP, c.Bits) {
		return vw.Violationf("update-nlri", "NLRI %v, intended %s", u.NLRI, maskStr(c.IP, c.Bits))
	}
	seen := map[uint8]rfcAttr{}
	for _, a := range u.Attrs {
		if _, dup := seen[a.Type]; dup {
			return vw.Violationf("update-dup-attr", "attribute %d twice", a.Type)
		}
		seen[a.Type] = a
	}
	wk := func(ty uint8, name string) (*rfcAttr, *vw.Violation) {
		a, ok := seen[ty]
		if !ok {
			return nil, vw.Violationf("update-missing-"+name, "attribute %s missing", name)
		}
		if a.Flags&0xe0 != 0x40 {
			return nil, vw.Violationf("update-flags-"+name, "well-known attribute %s has flags %#x", name, a.Flags)
		}
		return &a, nil
	}
	o, v := wk(1, "origin")
	if v != nil {
		return v
	}
	if len(o.Val) != 1 || o.Val[0] != 0 {
		return vw.Violationf("update-origin", "ORIGIN % x, want IGP", o.Val)
	}
	p, v := wk(2, "aspath")
	if v != nil {
		return v
	}
	if c.IBGP {
		tr.Class("ibgp")
		if len(p.Val) != 0 {
			return vw.Violationf("update-aspath-ibgp", "iBGP AS_PATH not empty: % x", p.Val)
		}
	} else {
		sz := 2
		if c.FBASN {
			sz = 4
			tr.Class("ebgp-4byte")
		} else {
			tr.Class("ebgp-2byte")
		}
		if len(p.Val) != 2+sz || p.Val[0] != 2 || p.Val[1] != 1 {
			return vw.Violationf("update-aspath-shape", "AS_PATH % x: want one AS_SEQUENCE of one %d-byte ASN", p.Val, sz)
		}
		var got uint32
		if sz == 4 {
			got = binary.BigEndian.Uint32(p.Val[2:])
		} else {
			got = uint32(binary.BigEndian.Uint16(p.Val[2:]))
		}
		if got != c.ASN {
			return vw.Violationf("update-aspath-asn", "AS_PATH carries %d, own ASN is %d", got, c.ASN)
		}
	}
	nh, v := wk(3, "nexthop")
	if v != nil {
		return v
	}
	if !bytes.Equal(nh.Val, c.NextHop[:]) {
		return vw.Violationf("update-nexthop", "NEXT_HOP % x, intended % x", nh.Val, c.NextHop)
	}
	lp, has := seen[5]
	if has != c.IBGP {
		return vw.Violationf("update-localpref-presence", "LOCAL_PREF present=%v ibgp=%v", has, c.IBGP)
	}
	if has {
		if lp.Flags&0xe0 != 0x40 || len(lp.Val) != 4 || binary.BigEndian.Uint32(lp.Val) != c.LP {
			return vw.Violationf("update-localpref", "LOCAL_PREF flags %#x value % x, intended %d", lp.Flags, lp.Val, c.LP)
		}
	}
	cm, has := seen[8]
	if has != (len(c.Comms) > 0) {
		return vw.Violationf("update-communities-presence", "COMMUNITIES present=%v, %d requested", has, len(c.Comms))
	}
	if has {
		tr.Class("communities")
		if cm.Flags&0xe0 != 0xc0 {
			return vw.Violationf("update-communities-flags", "COMMUNITIES flags %#x, want optional transitive", cm.Flags)
		}
		if len(cm.Val) != 4*len(c.Comms) {
			return vw.Violationf("update-communities-len", "COMMUNITIES %d bytes for %d communities", len(cm.Val), len(c.Comms))
		}
		var got, want []uint32
		for i := 0; i < len(cm.Val); i += 4 {
			got = append(got, binary.BigEndian.Uint32(cm.Val[i:]))
		}
		want = append(want, c.Comms...)
		sort.Slice(got, func(i, j int) bool { return got[i] < got[j] })
		sort.Slice(want, func(i, j int) bool { return want[i] < want[j] })
		if fmt.Sprint(got) != fmt.Sprint(want) {
			return vw.Violationf("update-communities", "COMMUNITIES %v, intended %v", got, want)
		}
	}
	for ty := range seen {
		switch ty {
		case 1, 2, 3, 5, 8:
		default:
			return vw.Violationf("update-unknown-attr", "unexpected attribute type %d", ty)
		}
	}
	if c.Bits%8 != 0 {
		tr.Class("unaligned-prefix")
	}
	if c.Bits == 0 || c.Bits == 32 {
		tr.Class("extreme-prefix-length")
	}
	return nil
}

func TestVerifC16Update(t *testing.T) {
	vw.Run(t, vw.Options{Property: "C16", Engine: "update",
		Rule: "random (prefix 0..32 with arbitrary host bits, ASN boundary set or random, iBGP/eBGP x 4-byte capable, localpref, 0..70 communities, optional withdraw list) -> sendUpdate/sendWithdraw/sendKeepalive -> independent RFC 4271 decoder; non-trivial = prefix length not a multiple of 8, or ASN>65535, or >=1 community",
		Assumptions: []string{"next hop is the 4-byte IPv4 local address connect() obtains from an AF_INET socket",
			"trailing host bits of an NLRI are irrelevant (RFC 4271 4.3): prefixes are compared after masking"}},
		genC16Update, runC16Update)
}

// ---------------------------------------------------------------- sendOpen

func genHold(rt *rapid.T) uint16 {
	if rapid.Bool().Draw(rt, "holdB") {
		return uint16(rapid.SampledFrom([]int{0, 3, 90, 180, 255, 256, 65535}).Draw(rt, "holdC"))
	}
	return rapid.Uint16().Draw(rt, "hold")
}

type c16Open struct {
	ASN  uint32  `json:"asn"`
	ID   [4]byte `json:"id"`
	Hold uint16  `json:"hold"`
	ID16 bool    `json:"id16"`
}

func TestVerifC16Open(t *testing.T) {
	vw.Run(t, vw.Options{Property: "C16", Engine: "open",
		Rule: "random (ASN across the 2/4-byte boundary, router id, hold time 0..65535 s) -> sendOpen -> independent decoder; non-trivial = ASN>65535 or hold time not in {0,90}"},
		func(rt *rapid.T) c16Open {
			return c16Open{ASN: genASN(rt, "asn"), ID: gen4(rt, "id"), Hold: genHold(rt), ID16: rapid.Bool().Draw(rt, "id16")}
		},
		func(c c16Open, tr *vw.Trace) *vw.Violation {
			id := net.IP(append([]byte{}, c.ID[:]...))
			if c.ID16 {
				id = id.To16()
			}
			if c.ASN > 65535 || (c.Hold != 0 && c.Hold != 90) {
				tr.NonTrivial()
			}
			var w bytes.Buffer
			if err := sendOpen(&w, c.ASN, id, time.Duration(c.Hold)*time.Second); err != nil {
				return vw.Violationf("open-error", "sendOpen: %v", err)
			}
			msgs, err := rfcSplit(w.Bytes())
			if err != nil || len(msgs) != 1 {
				return vw.Violationf("open-framing", "%v (%d messages): % x", err, len(msgs), w.Bytes())
			}
			if msgs[0].Type != 1 {
				return vw.Violationf("open-type", "type %d", msgs[0].Type)
			}
			o, err := rfcDecodeOpen(msgs[0].Body)
			if err != nil {
				return vw.Violationf("open-malformed", "OPEN does not decode: %v: % x", err, w.Bytes())
			}
			if o.Version != 4 {
				return vw.Violationf("open-version", "version %d", o.Version)
			}
			want16 := uint16(c.ASN)
			if c.ASN > 65535 {
				want16 = 23456
				tr.Class("as-trans")
			}
			if o.ASN16 != want16 {
				return vw.Violationf("open-asn16", "My AS field %d, want %d (ASN %d)", o.ASN16, want16, c.ASN)
			}
			if o.ASN32 == nil || *o.ASN32 != c.ASN {
				return vw.Violationf("open-asn32", "4-byte ASN capability %v, want %d", o.ASN32, c.ASN)
			}
			if o.Hold != c.Hold {
				return vw.Violationf("open-hold", "hold time %d, want %d", o.Hold, c.Hold)
			}
			if o.ID != c.ID {
				return vw.Violationf("open-id", "router id % x, want % x", o.ID, c.ID)
			}
			return nil
		})
}

// ---------------------------------------------------------------- readOpen

type c16Cap struct {
	Code uint8  `json:"code"`
	Val  []byte `json:"val"`
}

type c16ReadOpen struct {
	ASN16 uint16     `json:"asn16"`
	Hold  uint16     `json:"hold"`
	ID    [4]byte    `json:"id"`
	Opts  [][]c16Cap `json:"opts"` // each option is a capability list
	// mutations (all zero = well-formed)
	Truncate int    `json:"truncate"` // >0: cut that many bytes from the end
	LenDelta int    `json:"len_delta"`
	Patch    []int  `json:"patch"` // pairs offset,value
	Raw      []byte `json:"raw"`   // if set, the whole input
	Trailer  int    `json:"trailer"`
}

func genCap(rt *rapid.T) c16Cap {
	switch rapid.IntRange(0, 5).Draw(rt, "capK") {
	case 0:
		afi := rapid.SampledFrom([]uint16{1, 2, 25}).Draw(rt, "afi")
		safi := rapid.SampledFrom([]uint8{1, 2, 128}).Draw(rt, "safi")
		return c16Cap{1, []byte{byte(afi >> 8), byte(afi), 0, safi}}
	case 1:
		return c16Cap{2, nil} // route refresh
	case 2:
		return c16Cap{64, rapid.SliceOfN(rapid.Byte(), 2, 10).Draw(rt, "gr")}
	case 3:
		return c16Cap{70, nil}
	case 4:
		return c16Cap{rapid.SampledFrom([]uint8{0, 3, 5, 6, 69, 71, 73, 128, 255}).Draw(rt, "code"), rapid.SliceOfN(rapid.Byte(), 0, 12).Draw(rt, "val")}
	default:
		return c16Cap{2, nil}
	}
}

func genC16ReadOpen(rt *rapid.T) c16ReadOpen {
	c := c16ReadOpen{ASN16: uint16(genASN(rt, "asn16")), ID: gen4(rt, "id"), Trailer: rapid.IntRange(0, 8).Draw(rt, "trailer")}
	c.Hold = uint16(rapid.SampledFrom([]int{0, 3, 4, 90, 180, 65535}).Draw(rt, "hold"))
	nopt := rapid.SampledFrom([]int{0, 0, 1, 1, 1, 2, 3}).Draw(rt, "nopt")
	fb := rapid.IntRange(0, 2).Draw(rt, "fb") // 0 none, else place the 4-byte ASN capability somewhere
	total := 0
	for i := 0; i < nopt; i++ {
		var caps []c16Cap
		sz := 0
		for j, n := 0, rapid.IntRange(0, 4).Draw(rt, "ncap"); j < n; j++ {
			cp := genCap(rt)
			if sz+2+len(cp.Val) > 200 || total+sz+2+len(cp.Val) > 230 {
				break
			}
			sz += 2 + len(cp.Val)
			caps = append(caps, cp)
		}
		total += 2 + sz
		c.Opts = append(c.Opts, caps)
	}
	if fb > 0 && nopt > 0 {
		asn := genASN(rt, "asn32")
		i := rapid.IntRange(0, nopt-1).Draw(rt, "fbOpt")
		pos := rapid.IntRange(0, len(c.Opts[i])).Draw(rt, "fbPos")
		cp := c16Cap{65, []byte{byte(asn >> 24), byte(asn >> 16), byte(asn >> 8), byte(asn)}}
		c.Opts[i] = append(c.Opts[i][:pos:pos], append([]c16Cap{cp}, c.Opts[i][pos:]...)...)
	}
	switch rapid.IntRange(0, 9).Draw(rt, "mut") {
	case 0:
		c.Truncate = rapid.IntRange(1, 40).Draw(rt, "trunc")
	case 1:
		c.LenDelta = rapid.SampledFrom([]int{-40, -20, -11, -10, -9, -8, -2, -1, 1, 2, 8, 100, 4000, 65000}).Draw(rt, "ld")
	case 2:
		for i, n := 0, rapid.IntRange(1, 3).Draw(rt, "np"); i < n; i++ {
			c.Patch = append(c.Patch, rapid.IntRange(0, 80).Draw(rt, "po"), int(rapid.SampledFrom([]byte{0, 1, 2, 3, 4, 65, 0x7f, 0x80, 0xfe, 0xff}).Draw(rt, "pv")))
		}
	case 3:
		c.Raw = rapid.SliceOfN(rapid.Byte(), 0, 64).Draw(rt, "raw")
		if rapid.Bool().Draw(rt, "rawHdr") && len(c.Raw) > 0 {
			hdr := bytes.Repeat([]byte{0xff}, 16)
			c.Raw = append(hdr, c.Raw...)
		}
	}
	return c
}

func (c c16ReadOpen) wellFormed() bool {
	return c.Truncate == 0 && c.LenDelta == 0 && len(c.Patch) == 0 && c.Raw == nil
}

func (c c16ReadOpen) bytes() []byte {
	if c.Raw != nil {
		return c.Raw
	}
	var opts []byte
	for _, o := range c.Opts {
		var v []byte
		for _, cp := range o {
			v = append(v, cp.Code, byte(len(cp.Val)))
			v = append(v, cp.Val...)
		}
		opts = append(opts, 2, byte(len(v)))
		opts = append(opts, v...)
	}
	b := bytes.Repeat([]byte{0xff}, 16)
	l := 29 + len(opts) + c.LenDelta
	if l < 0 {
		l = 0
	}
	b = append(b, byte(l>>8), byte(l), 1, 4, byte(c.ASN16>>8), byte(c.ASN16), byte(c.Hold>>8), byte(c.Hold))
	b = append(b, c.ID[:]...)
	b = append(b, byte(len(opts)))
	b = append(b, opts...)
	for i := 0; i+1 < len(c.Patch); i += 2 {
		if c.Patch[i] < len(b) {
			b[c.Patch[i]] = byte(c.Patch[i+1])
		}
	}
	if c.Truncate > 0 {
		if c.Truncate >= len(b) {
			b = b[:0]
		} else {
			b = b[:len(b)-c.Truncate]
		}
	}
	return b
}

type countReader struct {
	r     io.Reader
	n     int
	calls int
}

func (c *countReader) Read(p []byte) (int, error) {
	c.calls++
	if c.calls > 100000 {
		panic("verif: readOpen does not terminate (100000 reads)")
	}
	n, err := c.r.Read(p)
	c.n += n
	return n, err
}

func runC16ReadOpen(c c16ReadOpen, tr *vw.Trace) *vw.Violation {
	msg := c.bytes()
	in := append(append([]byte{}, msg...), bytes.Repeat([]byte{0xa5}, c.Trailer)...)
	cr := &countReader{r: bytes.NewReader(in)}
	res, err := readOpen(cr)
	// announced length, if a header is there
	announced := -1
	if len(in) >= 19 {
		announced = int(binary.BigEndian.Uint16(in[16:18]))
		tr.Class("header-present")
	}
	limit := 19
	if announced > limit {
		limit = announced
	}
	if len(in) >= 19 && cr.n > limit {
		return vw.Violationf("readopen-overread", "readOpen consumed %d bytes, announced message length %d (type %d): % x", cr.n, announced, in[18], in).
			WithSig(fmt.Sprintf("overread:type=%d", in[18]))
	}
	if !c.wellFormed() {
		tr.Class("mutated")
		if err == nil {
			tr.Class("mutated-accepted")
		}
		if len(in) >= 29 {
			tr.NonTrivial()
		}
		return nil
	}
	tr.Class("well-formed")
	tr.NonTrivial()
	if len(c.Opts) == 0 {
		tr.Class("well-formed-no-options")
	}
	// A hold time of 1 or 2 is refused by RFC 4271 6.2; the generator does not produce it.
	if err != nil {
		return vw.Violationf("readopen-rejects-wellformed", "well-formed OPEN (len %d, %d options) refused: %v: % x", len(msg), len(c.Opts), err, msg).
			WithSig(fmt.Sprintf("rejects-wellformed:len<37=%v", len(msg) < 37))
	}
	if cr.n != len(msg) {
		return vw.Violationf("readopen-consumed", "accepted OPEN of %d bytes but consumed %d", len(msg), cr.n)
	}
	wantASN := uint32(c.ASN16)
	fb, mp4, mp6 := false, false, false
	for _, o := range c.Opts {
		for _, cp := range o {
			switch cp.Code {
			case 65:
				wantASN = binary.BigEndian.Uint32(cp.Val)
				fb = true
			case 1:
				afi, safi := binary.BigEndian.Uint16(cp.Val[0:2]), binary.BigEndian.Uint16(cp.Val[2:4])
				if afi == 1 && safi == 1 {
					mp4 = true
				}
				if afi == 2 && safi == 1 {
					mp6 = true
				}
			}
		}
	}
	if fb {
		tr.Class("well-formed-4byte")
	}
	if res.asn != wantASN {
		return vw.Violationf("readopen-asn", "ASN %d, want %d", res.asn, wantASN)
	}
	if res.holdTime != time.Duration(c.Hold)*time.Second {
		return vw.Violationf("readopen-hold", "hold %v, want %ds", res.holdTime, c.Hold)
	}
	if res.fbasn != fb || res.mp4 != mp4 || res.mp6 != mp6 {
		return vw.Violationf("readopen-caps", "capabilities fbasn=%v mp4=%v mp6=%v, want %v %v %v", res.fbasn, res.mp4, res.mp6, fb, mp4, mp6)
	}
	return nil
}

var c16ReadOpenOpts = vw.Options{Property: "C16", Engine: "readopen",
	Rule:        "structured OPEN (0..3 capability options, known/unknown capabilities, optional 4-byte ASN capability at a random position, trailing sentinel bytes) and mutations of it (truncation, length-field lies, byte patches, raw bytes) -> readOpen through a counting reader; non-trivial = well-formed, or mutated with >=29 bytes",
	Assumptions: []string{"a well-formed OPEN has hold time 0 or >=3 and at most one 4-byte-ASN capability"}}

func TestVerifC16ReadOpen(t *testing.T) {
	vw.Run(t, c16ReadOpenOpts, genC16ReadOpen, runC16ReadOpen)
}

// Native fuzz target (thorough tier): same oracle on raw bytes.
func FuzzVerifC16ReadOpen(f *testing.F) {
	seedCases := []c16ReadOpen{
		{ASN16: 64512, Hold: 90},
		{ASN16: 23456, Hold: 180, Opts: [][]c16Cap{{{65, []byte{0, 1, 0, 0}}, {1, []byte{0, 1, 0, 1}}}}},
		{ASN16: 1, Hold: 3, Opts: [][]c16Cap{{{2, nil}}, {{1, []byte{0, 2, 0, 1}}}}},
	}
	for _, c := range seedCases {
		f.Add(c.bytes())
	}
	f.Add([]byte{})
	f.Add(append(bytes.Repeat([]byte{0xff}, 16), 0, 19, 3))
	f.Add(append(bytes.Repeat([]byte{0xff}, 16), 0xff, 0xff, 1, 4, 0, 1, 0, 0, 1, 2, 3, 4, 0xff, 2, 0xff, 65, 4))
	f.Fuzz(func(t *testing.T, b []byte) {
		c := c16ReadOpen{Raw: b}
		if b == nil {
			c.Raw = []byte{}
		}
		tr := &vw.Trace{}
		v := vw.Safe(func() *vw.Violation { return runC16ReadOpen(c, tr) })
		if v != nil && vw.KnownID("C16", v) == "" {
			t.Fatalf("%s: %s", v.Kind, v.Detail)
		}
	})
}
