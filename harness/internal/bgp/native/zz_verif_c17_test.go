//go:build verif

package native

// C17 — native BGP session convergence, end to end: the real NewSession / run /
// connect / dialMD5 / consumeBGP / sendUpdates / Close against a scripted in-process
// BGP peer on a loopback TCP listener. The peer builds its routing table from the
// UPDATE stream with the independent decoder of the C16 harness.

import (
	"encoding/binary"
	"fmt"
	"io"
	"net"
	"sort"
	"strings"
	"sync"
	"testing"
	"time"

	"github.com/go-kit/log"
	"go.universe.tf/metallb/internal/bgp"
	vw "go.universe.tf/metallb/internal/verifworld"
	"pgregory.net/rapid"
)

type c17Adv struct {
	Prefix int      `json:"prefix"`
	LP     uint32   `json:"lp,omitempty"`
	Comms  []uint32 `json:"comms,omitempty"`
}

type c17Op struct {
	Kind    string `json:"kind"` // set | drop | dropafter | wait | sleep
	Set     int    `json:"set,omitempty"`
	After   int    `json:"after,omitempty"`
	SleepUs int    `json:"sleep_us,omitempty"`
}

type c17Case struct {
	IBGP     bool       `json:"ibgp"`
	FBASN    bool       `json:"fbasn"`
	BadFirst int        `json:"bad_first"` // the first n connections are answered with an unexpected ASN
	Sets     [][]c17Adv `json:"sets"`
	Ops      []c17Op    `json:"ops"`
	// CloseWhileDown: at the end the peer drops the connection and refuses new ones, the session is closed
	// while it is between connections, then the peer accepts again (costs > 1 s of back-off, so it is drawn rarely)
	CloseWhileDown bool `json:"close_while_down,omitempty"`
	// SrcAddr: the session is configured with a source address (127.0.0.1, as net.ParseIP returns it)
	SrcAddr bool `json:"src_addr,omitempty"`
	// FBASNFlip: every second connection the peer advertises the opposite 4-byte-ASN capability (a different router
	// behind the same address, a peer restarted with another configuration)
	FBASNFlip bool `json:"fbasn_flip,omitempty"`
	// CapLayout: how a 4-byte capable peer lays out the capabilities of its OPEN (see openBytes)
	CapLayout int `json:"cap_layout,omitempty"`
}

var c17Prefixes = []string{"10.9.0.1/32", "10.9.1.0/32", "10.9.1.0/24", "10.9.2.128/25", "10.9.0.0/16"}

func genC17(rt *rapid.T) c17Case {
	c := c17Case{IBGP: rapid.Bool().Draw(rt, "ibgp"), FBASN: rapid.Bool().Draw(rt, "fbasn"), BadFirst: rapid.SampledFrom([]int{0, 0, 0, 1}).Draw(rt, "badFirst")}
	ns := rapid.IntRange(1, 4).Draw(rt, "nsets")
	for i := 0; i < ns; i++ {
		var set []c17Adv
		for p := range c17Prefixes {
			if rapid.IntRange(0, 2).Draw(rt, "in") == 0 {
				continue
			}
			a := c17Adv{Prefix: p, LP: rapid.SampledFrom([]uint32{0, 100, 200}).Draw(rt, "lp")}
			// mostly a few communities, now and then many (the attribute length crosses 127 and 255 bytes at 32 and 64)
			for j, n := 0, rapid.SampledFrom([]int{0, 0, 1, 1, 2, 2, 31, 32, 40, 63}).Draw(rt, "ncomm"); j < n; j++ {
				a.Comms = append(a.Comms, rapid.SampledFrom([]uint32{65000<<16 | 1, 65000<<16 | 2, 100<<16 | 200}).Draw(rt, "comm")+uint32(j/3)*16)
			}
			set = append(set, a)
		}
		if rapid.IntRange(0, 5).Draw(rt, "empty") == 0 {
			set = nil
		}
		c.Sets = append(c.Sets, set)
	}
	for i, n := 0, rapid.IntRange(2, 10).Draw(rt, "nops"); i < n; i++ {
		op := c17Op{}
		switch k := rapid.IntRange(0, 9).Draw(rt, "opK"); {
		case k <= 3:
			op.Kind, op.Set = "set", rapid.IntRange(0, ns-1).Draw(rt, "set")
			if rapid.IntRange(0, 5).Draw(rt, "badset") == 0 {
				op.Kind = "badset" // the same routes followed by one that validation refuses: the call fails and must change nothing
			}
		case k == 4:
			op.Kind = "drop"
		case k == 5:
			op.Kind, op.After = "dropafter", rapid.IntRange(1, 4).Draw(rt, "after")
		case k <= 7:
			op.Kind = "wait"
		default:
			op.Kind, op.SleepUs = "sleep", rapid.SampledFrom([]int{0, 50, 500, 3000}).Draw(rt, "sleep")
		}
		c.Ops = append(c.Ops, op)
	}
	c.CloseWhileDown = rapid.IntRange(0, 11).Draw(rt, "closeWhileDown") == 0
	c.SrcAddr = rapid.IntRange(0, 2).Draw(rt, "srcAddr") == 0
	c.FBASNFlip = rapid.IntRange(0, 2).Draw(rt, "fbasnFlip") == 0
	c.CapLayout = rapid.IntRange(0, 3).Draw(rt, "capLayout")
	return c
}

// ---- scripted peer ---------------------------------------------------------------

type c17Route struct {
	LP    uint32
	HasLP bool
	Comms string
	Path  string
}

type c17Conn struct {
	fbasn        bool // the capability this connection's OPEN advertises
	id           int
	conn         net.Conn
	table        map[string]c17Route
	msgs         int
	dropAt       int // close after this many messages (-1 never)
	gotOpen      bool
	dead         bool
	updatesOnBad int
	bad          bool
	errs         []string
}

type c17Peer struct {
	ln         net.Listener
	mu         sync.Mutex
	conns      []*c17Conn
	myASN      uint32 // the ASN this peer presents
	speakerASN uint32
	fbasn      bool
	flip       bool
	capLayout  int
	bad        int
	stopped    bool
	refuse     bool // hang up on new connections before answering the OPEN
	opens      int  // OPEN messages received
	wg         sync.WaitGroup
}

func (p *c17Peer) current() *c17Conn {
	p.mu.Lock()
	defer p.mu.Unlock()
	if len(p.conns) == 0 {
		return nil
	}
	return p.conns[len(p.conns)-1]
}

func (p *c17Peer) serve() {
	defer p.wg.Done()
	for {
		conn, err := p.ln.Accept()
		if err != nil {
			return
		}
		p.mu.Lock()
		if p.refuse {
			p.mu.Unlock()
			conn.Close()
			continue
		}
		c := &c17Conn{id: len(p.conns), conn: conn, table: map[string]c17Route{}, dropAt: -1}
		c.bad = c.id < p.bad
		c.fbasn = p.fbasn != (p.flip && c.id%2 == 1)
		p.conns = append(p.conns, c)
		p.mu.Unlock()
		p.wg.Add(1)
		go p.handle(c)
	}
}

func (p *c17Peer) openBytes(asn uint32, fbasn bool) []byte {
	var opts []byte
	if fbasn {
		four := []byte{65, 4, byte(asn >> 24), byte(asn >> 16), byte(asn >> 8), byte(asn)}
		var caps []byte
		switch p.capLayout % 4 {
		case 0: // only the 4-byte-ASN capability
			caps = four
		case 1: // route refresh (no value) first - the usual layout of FRR, BIRD, GoBGP
			caps = append([]byte{2, 0}, four...)
		case 2: // multiprotocol, route refresh, enhanced route refresh, then the 4-byte ASN
			caps = append([]byte{1, 4, 0, 1, 0, 1, 2, 0, 70, 0}, four...)
		case 3: // the 4-byte ASN in a second optional parameter
			opts = []byte{2, 2, 2, 0}
			caps = four
		}
		opts = append(opts, append([]byte{2, byte(len(caps))}, caps...)...)
	} else {
		opts = []byte{2, 6, 1, 4, 0, 1, 0, 1} // some capability so that also older speakers accept the OPEN length
	}
	b := make([]byte, 16)
	for i := range b {
		b[i] = 0xff
	}
	a16 := uint16(asn)
	if asn > 65535 {
		a16 = 23456
	}
	l := 29 + len(opts)
	b = append(b, byte(l>>8), byte(l), 1, 4, byte(a16>>8), byte(a16), 0, 90, 9, 9, 9, 9, byte(len(opts)))
	return append(b, opts...)
}

func (p *c17Peer) handle(c *c17Conn) {
	defer p.wg.Done()
	defer func() {
		p.mu.Lock()
		c.dead = true
		p.mu.Unlock()
		c.conn.Close()
	}()
	hdr := make([]byte, 19)
	for {
		if _, err := io.ReadFull(c.conn, hdr); err != nil {
			return
		}
		l := int(binary.BigEndian.Uint16(hdr[16:18]))
		if l < 19 || l > 4096 {
			p.note(c, fmt.Sprintf("bad message length %d", l))
			return
		}
		body := make([]byte, l-19)
		if _, err := io.ReadFull(c.conn, body); err != nil {
			return
		}
		switch hdr[18] {
		case 1:
			p.mu.Lock()
			p.opens++
			p.mu.Unlock()
			asn := p.myASN
			if c.bad {
				asn = p.myASN + 7
			}
			if _, err := c.conn.Write(append(p.openBytes(asn, c.fbasn), keepaliveBytes()...)); err != nil {
				return
			}
			p.mu.Lock()
			c.gotOpen = true
			p.mu.Unlock()
		case 4:
		case 2:
			u, err := rfcDecodeUpdate(body)
			if err != nil {
				p.note(c, "malformed UPDATE: "+err.Error())
				return
			}
			p.mu.Lock()
			if c.bad {
				c.updatesOnBad++
			}
			for _, w := range u.Withdrawn {
				delete(c.table, canon(w))
			}
			if len(u.NLRI) > 0 {
				r := c17Route{}
				for _, a := range u.Attrs {
					switch a.Type {
					case 2:
						r.Path = fmt.Sprintf("% x", a.Val)
						// AS_PATH as this connection's capability demands: empty for iBGP, else one AS_SEQUENCE with the
						// speaker's ASN in 4 bytes if the peer advertised the capability on this connection, in 2 otherwise
						want := ""
						if p.myASN != p.speakerASN {
							want = fmt.Sprintf("02 01 %02x %02x", byte(p.speakerASN>>8), byte(p.speakerASN))
							if c.fbasn {
								want = fmt.Sprintf("02 01 00 00 %02x %02x", byte(p.speakerASN>>8), byte(p.speakerASN))
							}
						}
						if r.Path != want {
							c.errs = append(c.errs, fmt.Sprintf("AS_PATH % x on connection %d (4-byte capability advertised: %v), expected %s", a.Val, c.id, c.fbasn, want))
						}
					case 3:
						if len(a.Val) != 4 || !net.IP(a.Val).Equal(net.IPv4(127, 0, 0, 1)) {
							c.errs = append(c.errs, fmt.Sprintf("NEXT_HOP % x is not the speaker's address on this connection (127.0.0.1)", a.Val))
						}
					case 5:
						if len(a.Val) == 4 {
							r.LP, r.HasLP = binary.BigEndian.Uint32(a.Val), true
						}
					case 8:
						var cs []string
						for i := 0; i+4 <= len(a.Val); i += 4 {
							cs = append(cs, fmt.Sprint(binary.BigEndian.Uint32(a.Val[i:])))
						}
						sort.Strings(cs)
						r.Comms = strings.Join(cs, ",")
					}
				}
				for _, n := range u.NLRI {
					c.table[canon(n)] = r
				}
			}
			c.msgs++
			drop := c.dropAt >= 0 && c.msgs >= c.dropAt
			p.mu.Unlock()
			if drop {
				return
			}
		default:
			p.note(c, fmt.Sprintf("unexpected message type %d", hdr[18]))
		}
	}
}

func (p *c17Peer) note(c *c17Conn, s string) {
	p.mu.Lock()
	c.errs = append(c.errs, s)
	p.mu.Unlock()
}

func keepaliveBytes() []byte {
	b := make([]byte, 16)
	for i := range b {
		b[i] = 0xff
	}
	return append(b, 0, 19, 4)
}

// ---- run -------------------------------------------------------------------------

func c17Expected(set []c17Adv, ibgp bool) map[string]c17Route {
	t := map[string]c17Route{}
	for _, a := range set {
		var cs []string
		for _, x := range a.Comms {
			cs = append(cs, fmt.Sprint(x))
		}
		sort.Strings(cs)
		// duplicates of a community collapse in neither encoder nor model: keep as sent
		r := c17Route{Comms: strings.Join(cs, ",")}
		if ibgp {
			r.LP, r.HasLP = a.LP, true
		}
		t[canon(c17Prefixes[a.Prefix])] = r
	}
	return t
}

func c17Same(got, want map[string]c17Route) bool {
	if len(got) != len(want) {
		return false
	}
	for k, w := range want {
		g, ok := got[k]
		if !ok || g.HasLP != w.HasLP || g.LP != w.LP || g.Comms != w.Comms {
			return false
		}
	}
	return true
}

// c17EnvLog is the session's logger: it only remembers connect errors that come from the operating system running
// out of local ports / descriptors, so that such a run is reported as inconclusive instead of "did not converge".
type c17EnvLog struct {
	mu     sync.Mutex
	last   string
	errors []string // the last connect errors of the session, for the text of a timeout report
}

func (l *c17EnvLog) recent() []string {
	l.mu.Lock()
	defer l.mu.Unlock()
	return append([]string(nil), l.errors...)
}

func (l *c17EnvLog) Log(kv ...interface{}) error {
	msg := fmt.Sprint(kv...)
	if strings.Contains(msg, "connect") {
		l.mu.Lock()
		l.errors = append(l.errors, msg)
		if len(l.errors) > 4 {
			l.errors = l.errors[len(l.errors)-4:]
		}
		l.mu.Unlock()
	}
	for _, pat := range []string{"address already in use", "cannot assign requested address", "too many open files"} {
		if strings.Contains(msg, pat) {
			l.mu.Lock()
			l.last = msg
			l.mu.Unlock()
		}
	}
	return nil
}

func (l *c17EnvLog) portTrouble() string {
	l.mu.Lock()
	defer l.mu.Unlock()
	return l.last
}

func runC17(c c17Case, tr *vw.Trace) *vw.Violation {
	// a busy machine can run out of local ports for a moment (every finished connection lingers in TIME_WAIT):
	// that says nothing about the session under test, so wait for ports instead of judging anything
	ln, err := net.Listen("tcp4", "127.0.0.1:0")
	for tries := 0; err != nil && tries < 600; tries++ {
		time.Sleep(250 * time.Millisecond)
		ln, err = net.Listen("tcp4", "127.0.0.1:0")
	}
	if err != nil {
		panic("verif-inconclusive: cannot listen on loopback: " + err.Error())
	}
	speakerASN := uint32(64512)
	peerASN := speakerASN
	if !c.IBGP {
		peerASN = 64999
	}
	p := &c17Peer{ln: ln, myASN: peerASN, speakerASN: speakerASN, fbasn: c.FBASN, flip: c.FBASNFlip, capLayout: c.CapLayout, bad: c.BadFirst}
	if c.FBASNFlip {
		tr.Class("peer-capability-differs-between-connections")
	}
	p.wg.Add(1)
	go p.serve()
	port := ln.Addr().(*net.TCPAddr).Port
	hold := 90 * time.Second
	envLog := &c17EnvLog{}
	sm := NewSessionManager(log.NewNopLogger())
	params := bgp.SessionParameters{PeerAddress: "127.0.0.1", PeerPort: uint16(port), MyASN: speakerASN, PeerASN: peerASN,
		RouterID: net.ParseIP("1.2.3.4"), HoldTime: &hold, CurrentNode: "node0", SessionName: "peer"}
	if c.SrcAddr {
		params.SourceAddress = net.ParseIP("127.0.0.1")
		tr.Class("session-with-source-address")
	}
	sess, err := sm.NewSession(envLog, params)
	if err != nil {
		ln.Close()
		return vw.Violationf("new-session-error", "%v", err)
	}
	s := sess.(*session)
	var last []c17Adv
	reconnects, attrOnly, withdraws := 0, false, false
	mkAdvs := func(set []c17Adv) []*bgp.Advertisement {
		var out []*bgp.Advertisement
		for _, a := range set {
			_, n, _ := net.ParseCIDR(c17Prefixes[a.Prefix])
			if a.Prefix%2 == 1 {
				n.IP = n.IP.To16() // the same IPv4 network held in the 16-byte form (as net.ParseIP and ipaddr hand it out)
			}
			adv := &bgp.Advertisement{Prefix: n, LocalPref: a.LP}
			for _, x := range a.Comms {
				adv.Communities = append(adv.Communities, mkComm(x))
			}
			out = append(out, adv)
		}
		return out
	}
	wait := func(label string) *vw.Violation {
		want := c17Expected(last, c.IBGP)
		deadline := time.Now().Add(3 * time.Second)
		grace := false
		for {
			cur := p.current()
			ok := false
			var got map[string]c17Route
			if cur != nil {
				p.mu.Lock()
				got = map[string]c17Route{}
				for k, v := range cur.table {
					got[k] = v
				}
				ok = cur.gotOpen && !cur.dead && !cur.bad && c17Same(got, want)
				p.mu.Unlock()
			}
			if ok {
				// everything requested so far must have left the sender (the table may coincide with the target before that)
				s.mu.Lock()
				ok = s.conn != nil && s.new == nil
				s.mu.Unlock()
			}
			if ok {
				return nil
			}
			if time.Now().After(deadline) {
				s.mu.Lock()
				up, pending := s.conn != nil, s.new != nil
				s.mu.Unlock()
				if up && !pending && cur != nil && !cur.dead {
					return vw.Violationf("peer-table-differs", "%s: the connection is up and nothing is pending, but the peer's table is %v, last requested set %v", label, got, want)
				}
				if grace {
					return vw.Violationf("not-converged-liveness-by-timeout", "%s: after 30 s the peer's table is %v, last requested set %v (connection up=%v pending=%v; the session's last connect errors: %v)", label, got, want, up, pending, envLog.recent())
				}
				// the retry back-off of the session doubles from 1 s: 27 s more leave room for five failed attempts in a row
				// on a machine that is busy with other checks; a session that never comes back is reported all the same
				grace = true
				deadline = time.Now().Add(27 * time.Second)
			}
			time.Sleep(200 * time.Microsecond)
		}
	}
	defer func() {
		sess.Close()
		ln.Close()
		p.mu.Lock()
		for _, cc := range p.conns {
			cc.conn.Close()
		}
		p.mu.Unlock()
		p.wg.Wait()
	}()
	for i, op := range c.Ops {
		label := fmt.Sprintf("op %d (%s)", i, op.Kind)
		switch op.Kind {
		case "set":
			next := c.Sets[op.Set%len(c.Sets)]
			// classify
			old := c17Expected(last, true)
			nw := c17Expected(next, true)
			for k, o := range old {
				if n, ok := nw[k]; !ok {
					withdraws = true
				} else if n != o {
					attrOnly = true
				}
			}
			if err := sess.Set(mkAdvs(next)...); err != nil {
				return vw.Violationf("set-error", "%s: %v", label, err)
			}
			last = next
		case "badset":
			advs := mkAdvs(c.Sets[op.Set%len(c.Sets)])
			_, v6, _ := net.ParseCIDR("2001:db8::1/128")
			advs = append(advs, &bgp.Advertisement{Prefix: v6})
			if err := sess.Set(advs...); err == nil {
				return nil // accepted: not the situation this action is about
			}
			tr.Class("refused-set")
		case "drop":
			if cur := p.current(); cur != nil {
				cur.conn.Close()
				reconnects++
				tr.Class("peer-dropped-connection")
			}
		case "dropafter":
			if cur := p.current(); cur != nil {
				p.mu.Lock()
				cur.dropAt = cur.msgs + op.After
				p.mu.Unlock()
				reconnects++
				tr.Class("peer-drops-mid-stream")
			}
		case "sleep":
			time.Sleep(time.Duration(op.SleepUs) * time.Microsecond)
		case "wait":
			if v := wait(label); v != nil {
				return v
			}
		}
	}
	if v := wait("final"); v != nil {
		return v
	}
	// protocol hygiene seen by the peer
	p.mu.Lock()
	for _, cc := range p.conns {
		if len(cc.errs) > 0 {
			p.mu.Unlock()
			return vw.Violationf("peer-saw-malformed-stream", "connection %d: %v", cc.id, cc.errs)
		}
		if cc.updatesOnBad > 0 {
			p.mu.Unlock()
			return vw.Violationf("update-to-unexpected-asn", "the peer presented an unexpected ASN on connection %d and still received %d UPDATE(s)", cc.id, cc.updatesOnBad)
		}
	}
	nconn := len(p.conns)
	p.mu.Unlock()
	if c.BadFirst > 0 {
		tr.Class("unexpected-asn-refused")
	}
	// Close: no further connection attempts, no further messages
	cur := p.current()
	// let the bytes already written reach the peer: the message count must be stable before Close
	msgsBefore := -1
	for i := 0; i < 400; i++ {
		p.mu.Lock()
		m := cur.msgs
		p.mu.Unlock()
		if m == msgsBefore {
			break
		}
		msgsBefore = m
		time.Sleep(5 * time.Millisecond)
	}
	if v := wait("before close"); v != nil {
		return v
	}
	// the connection may have been replaced while waiting (an armed drop): take the counts right before Close
	cur = p.current()
	p.mu.Lock()
	nconn = len(p.conns)
	msgsBefore = cur.msgs
	p.mu.Unlock()
	if c.CloseWhileDown {
		tr.Class("close-while-disconnected")
		p.mu.Lock()
		p.refuse = true
		p.mu.Unlock()
		cur.conn.Close()
		time.Sleep(40 * time.Millisecond) // the session notices, fails to reconnect and backs off
		sess.Close()
		p.mu.Lock()
		p.refuse = false
		opensAtClose := p.opens
		p.mu.Unlock()
		time.Sleep(1300 * time.Millisecond) // longer than the first back-off step
		p.mu.Lock()
		late := p.opens - opensAtClose
		p.mu.Unlock()
		if late > 0 {
			return vw.Violationf("connect-after-close", "the session was closed while it was between connections; %d new BGP OPEN(s) arrived afterwards", late)
		}
		return nil
	}
	sess.Close()
	cur.conn.Close() // the peer hangs up as well: a live session would reconnect now
	time.Sleep(30 * time.Millisecond)
	p.mu.Lock()
	after, msgsAfter := len(p.conns), cur.msgs
	p.mu.Unlock()
	if after != nconn {
		return vw.Violationf("connect-after-close", "%d new connection(s) after Close", after-nconn)
	}
	if msgsAfter != msgsBefore {
		return vw.Violationf("message-after-close", "%d UPDATE(s) after Close", msgsAfter-msgsBefore)
	}
	if reconnects > 0 && (withdraws || attrOnly) {
		tr.NonTrivial()
	}
	if attrOnly {
		tr.Class("attribute-only-change")
	}
	if withdraws {
		tr.Class("withdraw")
	}
	return nil
}

func TestVerifC17Session(t *testing.T) {
	vw.Run(t, vw.Options{Property: "C17", Engine: "loopback-session",
		Rule: "iBGP/eBGP x 4-byte capable peer, optionally one handshake with an unexpected ASN, 1..4 route sets over 5 prefixes (two of them share a network address and differ in length; local preference, 0..2 communities, empty set), 2..10 actions: Set, peer drops the connection now / after k more UPDATEs, short sleeps, wait-for-convergence; the scripted peer's table for the current connection must equal the last requested set; non-trivial = >=1 reconnect and a withdraw or attribute-only change",
		Assumptions: []string{"real time over loopback TCP: convergence normally takes < 5 ms, the wait bound is 3 s + 10 s grace; a verdict by timeout is labelled liveness-by-timeout",
			"timing of changes relative to the sender loop is sampled by the OS scheduler, not enumerated"}},
		genC17, runC17)
}

// C16 over a whole session: every message of the stream a peer receives from the real session (with and
// without a configured source address) must decode, and NEXT_HOP must be the speaker's address.
func TestVerifC16Session(t *testing.T) {
	vw.Run(t, vw.Options{Property: "C16", Engine: "session-stream",
		Rule:        "the C17 loopback scenario (real NewSession / connect / sendUpdates against a scripted peer) with 1..4 route sets and 2..10 actions, half of the sessions configured with a source address: the peer decodes every message with the independent RFC 4271 decoder and checks NEXT_HOP against the connection's local address; non-trivial = >=1 reconnect and a withdraw or attribute-only change",
		Assumptions: []string{"real time over loopback TCP as in the C17 loopback engine"}},
		func(rt *rapid.T) c17Case {
			c := genC17(rt)
			c.SrcAddr = rapid.Bool().Draw(rt, "srcAddr16")
			c.CloseWhileDown = false
			return c
		}, runC17)
}
