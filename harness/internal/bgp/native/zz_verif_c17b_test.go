//go:build verif && go1.25

package native

// C17, engine (b) — the session state machine on a virtual clock with an in-memory transport.
//
// The real Set / sendUpdates / abort / Close / consumeBGP / sendKeepalives / sendUpdate /
// sendWithdraw / sendOpen / readOpen run inside a testing/synctest bubble. Only the dialling half
// of connect() (dialMD5 needs real sockets, which a bubble cannot own) and the retry loop of run()
// are replaced by the harness: c17bConnect performs the same handshake steps in the same order over
// a net.Pipe, c17bRun is run()'s loop. The loopback engine (zz_verif_c17_test.go) covers the real
// run/connect/dialMD5.
//
// What this engine adds over the loopback one: the peer consumes the byte stream one byte at a
// time, so a connection loss can be placed at every byte offset of the stream (inside an UPDATE,
// inside a withdraw, inside a KEEPALIVE, inside the handshake), time is virtual (keepalive ticks and
// back-off elapse instantly), and synctest.Wait gives an exact "nothing is running" point at which
// the peer's table must equal the last requested set - no timeouts, no grace periods.

import (
	"encoding/binary"
	"fmt"
	"io"
	"net"
	"sort"
	"strings"
	"sync"
	"testing"
	"testing/synctest"
	"time"

	"github.com/go-kit/log"
	"go.universe.tf/metallb/internal/bgp"
	vw "go.universe.tf/metallb/internal/verifworld"
	"pgregory.net/rapid"
)

type c17bOp struct {
	Kind  string `json:"kind"` // set | settle | drop | dropbytes | tick | yield
	Set   int    `json:"set,omitempty"`
	Bytes int    `json:"bytes,omitempty"`
	Secs  int    `json:"secs,omitempty"`
}

type c17bCase struct {
	IBGP           bool       `json:"ibgp"`
	FBASN          bool       `json:"fbasn"`
	BadFirst       int        `json:"bad_first"`
	Sets           [][]c17Adv `json:"sets"`
	Ops            []c17bOp   `json:"ops"`
	CloseWhileDown bool       `json:"close_while_down,omitempty"`
}

func genC17b(rt *rapid.T) c17bCase {
	base := genC17(rt)
	c := c17bCase{IBGP: base.IBGP, FBASN: base.FBASN, BadFirst: base.BadFirst, Sets: base.Sets, CloseWhileDown: rapid.IntRange(0, 3).Draw(rt, "closeDown") == 0}
	ns := len(c.Sets)
	for i, n := 0, rapid.IntRange(2, 14).Draw(rt, "nops2"); i < n; i++ {
		op := c17bOp{}
		switch k := rapid.IntRange(0, 11).Draw(rt, "opK2"); {
		case k <= 3:
			op.Kind, op.Set = "set", rapid.IntRange(0, ns-1).Draw(rt, "set2")
			if rapid.IntRange(0, 5).Draw(rt, "badset") == 0 {
				op.Kind = "badset" // the same routes followed by one that validation refuses: the call fails and must change nothing
			}
		case k == 4:
			op.Kind = "drop"
		case k <= 7:
			op.Kind, op.Bytes = "dropbytes", rapid.IntRange(1, 200).Draw(rt, "bytes")
		case k <= 9:
			op.Kind = "settle"
		case k == 10:
			op.Kind, op.Secs = "tick", rapid.SampledFrom([]int{1, 29, 30, 31, 61, 200}).Draw(rt, "secs")
		default:
			op.Kind = "yield"
		}
		c.Ops = append(c.Ops, op)
	}
	return c
}

type c17bConn struct {
	id      int
	conn    net.Conn
	table   map[string]c17Route
	budget  int // bytes this connection still reads before the peer hangs up (-1 = unlimited)
	read    int
	open    bool
	dead    bool
	bad     bool
	updates int
	inMsg   bool // the last byte read was in the middle of a message
	errs    []string
}

type c17bPeer struct {
	mu     sync.Mutex
	conns  []*c17bConn
	asn    uint32
	fbasn  bool
	bad    int
	refuse bool
	dials  int
	bytes  int
	midMsg int // connections lost in the middle of a message
}

func (p *c17bPeer) current() *c17bConn {
	p.mu.Lock()
	defer p.mu.Unlock()
	if len(p.conns) == 0 {
		return nil
	}
	return p.conns[len(p.conns)-1]
}

// dial is what the session's dialler would do: a new transport to the peer, or an error.
func (p *c17bPeer) dial() (net.Conn, error) {
	p.mu.Lock()
	defer p.mu.Unlock()
	p.dials++
	if p.refuse {
		return nil, fmt.Errorf("connection refused")
	}
	a, b := net.Pipe()
	c := &c17bConn{id: len(p.conns), conn: b, table: map[string]c17Route{}, budget: -1}
	c.bad = c.id < p.bad
	p.conns = append(p.conns, c)
	go p.handle(c)
	return a, nil
}

// readFull reads byte by byte so that the budget is exact.
func (p *c17bPeer) readFull(c *c17bConn, buf []byte) error {
	for off := 0; off < len(buf); off++ {
		p.mu.Lock()
		b := c.budget
		p.mu.Unlock()
		if b == 0 {
			return io.EOF
		}
		if _, err := c.conn.Read(buf[off : off+1]); err != nil {
			return err
		}
		p.mu.Lock()
		c.read++
		p.bytes++
		if c.budget > 0 {
			c.budget--
		}
		p.mu.Unlock()
	}
	return nil
}

func (p *c17bPeer) handle(c *c17bConn) {
	partial := false
	defer func() {
		p.mu.Lock()
		c.dead = true
		if partial {
			p.midMsg++
		}
		p.mu.Unlock()
		c.conn.Close()
	}()
	helper := &c17Peer{fbasn: p.fbasn, capLayout: c.id}
	hdr := make([]byte, 19)
	for {
		partial = false
		if err := p.readFull(c, hdr[:1]); err != nil {
			return
		}
		partial = true
		if err := p.readFull(c, hdr[1:]); err != nil {
			return
		}
		l := int(binary.BigEndian.Uint16(hdr[16:18]))
		if l < 19 || l > 4096 {
			p.note(c, fmt.Sprintf("bad message length %d", l))
			return
		}
		body := make([]byte, l-19)
		if err := p.readFull(c, body); err != nil {
			return
		}
		partial = false
		switch hdr[18] {
		case 1:
			asn := p.asn
			if c.bad {
				asn += 7
			}
			if _, err := c.conn.Write(append(helper.openBytes(asn, p.fbasn), keepaliveBytes()...)); err != nil {
				return
			}
			p.mu.Lock()
			c.open = true
			p.mu.Unlock()
		case 4:
		case 2:
			u, err := rfcDecodeUpdate(body)
			if err != nil {
				p.note(c, "malformed UPDATE: "+err.Error())
				return
			}
			p.mu.Lock()
			c.updates++
			for _, w := range u.Withdrawn {
				delete(c.table, canon(w))
			}
			if len(u.NLRI) > 0 {
				r := c17Route{}
				for _, a := range u.Attrs {
					switch a.Type {
					case 2:
						r.Path = fmt.Sprintf("% x", a.Val)
					case 5:
						if len(a.Val) == 4 {
							r.LP, r.HasLP = binary.BigEndian.Uint32(a.Val), true
						}
					case 8:
						var cs []string
						for i := 0; i+4 <= len(a.Val); i += 4 {
							cs = append(cs, fmt.Sprint(binary.BigEndian.Uint32(a.Val[i:])))
						}
						sort.Strings(cs)
						r.Comms = strings.Join(cs, ",")
					}
				}
				for _, n := range u.NLRI {
					c.table[canon(n)] = r
				}
			}
			p.mu.Unlock()
		default:
			p.note(c, fmt.Sprintf("unexpected message type %d", hdr[18]))
		}
	}
}

func (p *c17bPeer) note(c *c17bConn, s string) {
	p.mu.Lock()
	c.errs = append(c.errs, s)
	p.mu.Unlock()
}

// c17bConnect is connect() with the transport supplied by the harness: the same steps in the same order.
func c17bConnect(s *session, dial func() (net.Conn, error)) error {
	s.mu.Lock()
	defer s.mu.Unlock()
	if s.closed {
		return errClosed
	}
	conn, err := dial()
	if err != nil {
		return fmt.Errorf("dial %q: %s", s.PeerAddress, err)
	}
	s.nextHop = net.ParseIP("10.0.0.99").To4()
	if err = sendOpen(conn, s.MyASN, s.RouterID, *s.HoldTime); err != nil {
		conn.Close()
		return err
	}
	op, err := readOpen(conn)
	if err != nil {
		conn.Close()
		return err
	}
	if op.asn != s.PeerASN {
		conn.Close()
		return fmt.Errorf("unexpected peer ASN %d, want %d", op.asn, s.PeerASN)
	}
	s.peerFBASNSupport = op.fbasn
	if s.MyASN > 65536 && !s.peerFBASNSupport {
		conn.Close()
		return fmt.Errorf("peer does not support 4-byte ASNs")
	}
	go s.consumeBGP(conn)
	if err := sendKeepalive(conn); err != nil {
		conn.Close()
		return err
	}
	s.actualHoldTime = *s.HoldTime
	if op.holdTime < s.actualHoldTime {
		s.actualHoldTime = op.holdTime
	}
	select {
	case s.newHoldTime <- true:
	default:
	}
	s.conn = conn
	return nil
}

// c17bRun is run()'s loop.
func c17bRun(s *session, dial func() (net.Conn, error)) {
	for {
		if err := c17bConnect(s, dial); err != nil {
			if err == errClosed {
				return
			}
			time.Sleep(s.backoff.Duration())
			continue
		}
		s.backoff.Reset()
		if !s.sendUpdates() {
			return
		}
	}
}

func runC17b(t *testing.T, c c17bCase, tr *vw.Trace) (viol *vw.Violation) {
	synctest.Test(t, func(t *testing.T) {
		speakerASN := uint32(64512)
		peerASN := speakerASN
		if !c.IBGP {
			peerASN = 64999
		}
		p := &c17bPeer{asn: peerASN, fbasn: c.FBASN, bad: c.BadFirst}
		hold := 90 * time.Second
		s := &session{
			SessionParameters: bgp.SessionParameters{PeerAddress: "192.0.2.1", PeerPort: 179, MyASN: speakerASN, PeerASN: peerASN,
				RouterID: net.ParseIP("1.2.3.4"), HoldTime: &hold, CurrentNode: "node0", SessionName: "peer"},
			logger:      log.NewNopLogger(),
			newHoldTime: make(chan bool, 1),
			advertised:  map[string]*bgp.Advertisement{},
			peerName:    "192.0.2.1:179",
		}
		s.cond = sync.NewCond(&s.mu)
		go s.sendKeepalives()
		runDone := make(chan struct{})
		go func() {
			defer close(runDone)
			c17bRun(s, p.dial)
		}()
		defer func() {
			// leave no goroutine behind in the bubble
			s.Close()
			s.mu.Lock()
			if s.actualHoldTime == 0 {
				s.actualHoldTime = time.Second
			}
			s.mu.Unlock()
			select {
			case s.newHoldTime <- true:
			default:
			}
			p.mu.Lock()
			for _, cc := range p.conns {
				cc.conn.Close()
			}
			p.mu.Unlock()
			time.Sleep(10 * time.Minute)
			synctest.Wait()
		}()
		var last []c17Adv
		reconnects, attrOnly, withdraws := 0, false, false
		mkAdvs := func(set []c17Adv) []*bgp.Advertisement {
			var out []*bgp.Advertisement
			for _, a := range set {
				_, n, _ := net.ParseCIDR(c17Prefixes[a.Prefix])
				if a.Prefix%2 == 1 {
					n.IP = n.IP.To16() // the same IPv4 network held in the 16-byte form (as net.ParseIP and ipaddr hand it out)
				}
				adv := &bgp.Advertisement{Prefix: n, LocalPref: a.LP}
				for _, x := range a.Comms {
					adv.Communities = append(adv.Communities, mkComm(x))
				}
				out = append(out, adv)
			}
			return out
		}
		settle := func(label string) *vw.Violation {
			want := c17Expected(last, c.IBGP)
			var got map[string]c17Route
			up, pending := false, false
			for i := 0; i < 60; i++ {
				synctest.Wait()
				s.mu.Lock()
				up, pending = s.conn != nil, s.new != nil
				s.mu.Unlock()
				cur := p.current()
				if cur != nil {
					p.mu.Lock()
					got = map[string]c17Route{}
					for k, v := range cur.table {
						got[k] = v
					}
					alive := cur.open && !cur.dead && !cur.bad
					p.mu.Unlock()
					if up && !pending && alive {
						if !c17Same(got, want) {
							return vw.Violationf("peer-table-differs", "%s: the connection is up, nothing is pending and every goroutine is idle, but the peer's table is %v, last requested set %v", label, got, want)
						}
						return nil
					}
				}
				time.Sleep(time.Second) // virtual: lets a back-off elapse
			}
			return vw.Violationf("not-converged", "%s: after 60 virtual seconds of the peer accepting connections the session is up=%v pending=%v, peer's table %v, last requested set %v", label, up, pending, got, want)
		}
		for i, op := range c.Ops {
			label := fmt.Sprintf("op %d (%s)", i, op.Kind)
			switch op.Kind {
			case "set":
				next := c.Sets[op.Set%len(c.Sets)]
				old, nw := c17Expected(last, true), c17Expected(next, true)
				for k, o := range old {
					if n, ok := nw[k]; !ok {
						withdraws = true
					} else if n != o {
						attrOnly = true
					}
				}
				if err := s.Set(mkAdvs(next)...); err != nil {
					viol = vw.Violationf("set-error", "%s: %v", label, err)
					return
				}
				last = next
			case "badset":
				advs := mkAdvs(c.Sets[op.Set%len(c.Sets)])
				_, v6, _ := net.ParseCIDR("2001:db8::1/128")
				advs = append(advs, &bgp.Advertisement{Prefix: v6})
				if err := s.Set(advs...); err == nil {
					return // accepted: not the situation this action is about
				}
				tr.Class("refused-set")
			case "drop":
				if cur := p.current(); cur != nil {
					p.mu.Lock()
					cur.budget = 0
					p.mu.Unlock()
					cur.conn.Close()
					reconnects++
					tr.Class("peer-dropped-connection")
				}
			case "dropbytes":
				if cur := p.current(); cur != nil {
					p.mu.Lock()
					if cur.budget < 0 {
						cur.budget = op.Bytes
						reconnects++
					}
					p.mu.Unlock()
				}
			case "tick":
				time.Sleep(time.Duration(op.Secs) * time.Second)
				tr.Class("virtual-time-advanced")
			case "yield":
				synctest.Wait()
			case "settle":
				if viol = settle(label); viol != nil {
					return
				}
			}
		}
		if viol = settle("final"); viol != nil {
			return
		}
		p.mu.Lock()
		for _, cc := range p.conns {
			if len(cc.errs) > 0 {
				viol = vw.Violationf("peer-saw-malformed-stream", "connection %d: %v", cc.id, cc.errs)
			}
			if cc.bad && cc.updates > 0 {
				viol = vw.Violationf("update-to-unexpected-asn", "the peer presented an unexpected ASN on connection %d and still received %d UPDATE(s)", cc.id, cc.updates)
			}
		}
		mid := p.midMsg
		p.mu.Unlock()
		if viol != nil {
			return
		}
		if mid > 0 {
			tr.Class("connection-lost-inside-a-message")
		}
		if c.BadFirst > 0 {
			tr.Class("unexpected-asn-refused")
		}
		// Close
		if c.CloseWhileDown {
			tr.Class("close-while-disconnected")
			p.mu.Lock()
			p.refuse = true
			p.mu.Unlock()
			if cur := p.current(); cur != nil {
				cur.conn.Close()
			}
			synctest.Wait() // the session noticed, failed to reconnect and sleeps in its back-off
		}
		if err := s.Close(); err != nil {
			viol = vw.Violationf("close-error", "%v", err)
			return
		}
		p.mu.Lock()
		p.refuse = false
		dials, bytes := p.dials, p.bytes
		p.mu.Unlock()
		time.Sleep(10 * time.Minute)
		synctest.Wait()
		p.mu.Lock()
		dialsAfter, bytesAfter := p.dials, p.bytes
		p.mu.Unlock()
		if dialsAfter != dials {
			viol = vw.Violationf("connect-after-close", "%d connection attempt(s) after Close", dialsAfter-dials)
			return
		}
		if bytesAfter != bytes {
			viol = vw.Violationf("message-after-close", "%d byte(s) reached the peer after Close returned", bytesAfter-bytes)
			return
		}
		select {
		case <-runDone:
		default:
			viol = vw.Violationf("sender-loop-alive-after-close", "10 virtual minutes after Close the sender loop has not terminated")
			return
		}
		if reconnects > 0 && (withdraws || attrOnly) {
			tr.NonTrivial()
		}
		if attrOnly {
			tr.Class("attribute-only-change")
		}
		if withdraws {
			tr.Class("withdraw")
		}
	})
	return viol
}

func TestVerifC17Virtual(t *testing.T) {
	vw.Run(t, vw.Options{Property: "C17", Engine: "virtual-session",
		Rule: "iBGP/eBGP x 4-byte capable peer, optionally one handshake with an unexpected ASN, 1..4 route sets over 5 prefixes (two of them share a network address and differ in length), 2..14 actions: Set, peer hangs up now / after exactly k more bytes (1..200, i.e. inside the handshake, an UPDATE, a withdraw or a KEEPALIVE), advance the virtual clock (keepalive ticks, back-off), yield to the sender, settle-and-compare; Close while connected or while backing off; the peer's table of the live connection must equal the last requested set whenever the connection is up, nothing is pending and every goroutine is idle; non-trivial = >=1 connection loss and a withdraw or attribute-only change",
		Assumptions: []string{"go1.26.8 testing/synctest; the transport is net.Pipe (unbuffered: a write completes when the peer has read it)",
			"the dialling half of connect() and the retry loop of run() are re-stated by the harness (dialMD5 needs real sockets); the loopback engine covers the real ones"}},
		genC17b,
		func(c c17bCase, tr *vw.Trace) *vw.Violation { return runC17b(t, c, tr) })
}
