//go:build verif

package frr

// C15 — the FRRConfiguration handed to frr-k8s says exactly what was requested, and
// denotes the same per-neighbor routes as the FRR-mode configuration (differential
// with the interpreter of internal/bgp/frr).

import (
	"fmt"
	"reflect"
	"sort"
	"strings"
	"testing"
	"time"

	"github.com/go-kit/log"
	frrv1beta1 "github.com/metallb/frr-k8s/api/v1beta1"
	"go.universe.tf/metallb/internal/bgp"
	frrmode "go.universe.tf/metallb/internal/bgp/frr"
	"go.universe.tf/metallb/internal/logging"
	vw "go.universe.tf/metallb/internal/verifworld"
	metav1 "k8s.io/apimachinery/pkg/apis/meta/v1"
	"pgregory.net/rapid"
)

type c15Case struct {
	Sessions []vw.BGPSession `json:"sessions"`
	Order    []int           `json:"order"`
	AdvPerm  [][]int         `json:"adv_perm"`
	Both     int             `json:"both"` // >0: session (Both-1) gets password AND secret reference
	Prior    [][]vw.BGPAdv   `json:"prior"`
}

func c15Perm(rt *rapid.T, n int, label string) []int {
	idx := make([]int, n)
	for i := range idx {
		idx[i] = i
	}
	if n < 2 {
		return idx
	}
	return rapid.Permutation(idx).Draw(rt, label)
}

func genC15(rt *rapid.T) c15Case {
	c := c15Case{Sessions: vw.GenBGPSessions(rt, true)}
	c.Order = c15Perm(rt, len(c.Sessions), "order")
	for _, s := range c.Sessions {
		c.AdvPerm = append(c.AdvPerm, c15Perm(rt, len(s.Advs), "advperm"))
	}
	for _, s := range c.Sessions {
		c.Prior = append(c.Prior, vw.GenPriorAdvs(rt, s.Advs))
	}
	if len(c.Sessions) > 0 && rapid.IntRange(0, 19).Draw(rt, "bothK") == 0 {
		c.Both = 1 + rapid.IntRange(0, len(c.Sessions)-1).Draw(rt, "both")
	}
	return c
}

func c15Render(sessions []vw.BGPSession, order []int, advPerm [][]int, prior ...[][]vw.BGPAdv) (*frrv1beta1.FRRConfiguration, error) {
	var last *frrv1beta1.FRRConfiguration
	sm := &sessionManager{sessions: map[string]*session{}, nodeToConfigure: "node0", targetNamespace: "frr-k8s-system", logger: log.NewNopLogger(), logLevel: logging.LevelInfo}
	sm.SetEventCallback(func(c interface{}) {
		cfg := c.(frrv1beta1.FRRConfiguration)
		last = cfg.DeepCopy()
	})
	idx := make([]int, len(sessions))
	for i := range idx {
		idx[i] = i
	}
	if len(order) == len(sessions) {
		idx = order
	}
	handles := map[int]bgp.Session{}
	for _, i := range idx {
		h, err := sm.NewSession(log.NewNopLogger(), frrmode.VerifParams(sessions[i]))
		if err != nil {
			return nil, err
		}
		handles[i] = h
	}
	if len(prior) > 0 {
		for _, i := range idx {
			if i < len(prior[0]) && prior[0][i] != nil {
				old := sessions[i]
				old.Advs = prior[0][i]
				if err := handles[i].Set(frrmode.VerifAdvs(old, nil)...); err != nil {
					return nil, err
				}
			}
		}
	}
	for _, i := range idx {
		var p []int
		if i < len(advPerm) {
			p = advPerm[i]
		}
		if err := handles[i].Set(frrmode.VerifAdvs(sessions[i], p)...); err != nil {
			return nil, err
		}
	}
	return last, nil
}

func uniqSorted(in []string) []string {
	m := map[string]bool{}
	for _, x := range in {
		m[x] = true
	}
	out := []string{}
	for x := range m {
		out = append(out, x)
	}
	sort.Strings(out)
	return out
}

func runC15(c c15Case, tr *vw.Trace) *vw.Violation {
	if len(c.Sessions) == 0 {
		return nil
	}
	if c.Both > 0 {
		ss := append([]vw.BGPSession(nil), c.Sessions...)
		ss[c.Both-1].Password, ss[c.Both-1].SecretRef = "pw", "peersecret"
		cfg, err := c15Render(ss, nil, nil)
		tr.Class("password-and-secret")
		if err == nil {
			for _, r := range cfg.Spec.BGP.Routers {
				for _, n := range r.Neighbors {
					if n.Password != "" && n.PasswordSecret.Name != "" {
						return vw.Violationf("password-and-secret", "neighbor %s carries both a password and a secret reference", n.Address+n.Interface)
					}
				}
			}
		}
		return nil
	}
	cfg, err := c15Render(c.Sessions, nil, nil)
	if err != nil || cfg == nil {
		return vw.Violationf("render-error", "building the FRRConfiguration for %d valid sessions failed: %v", len(c.Sessions), err)
	}
	cfg2, err := c15Render(c.Sessions, c.Order, c.AdvPerm, c.Prior)
	if err != nil || !reflect.DeepEqual(cfg, cfg2) {
		return vw.Violationf("config-depends-on-order", "the FRRConfiguration depends on creation / advertisement order / earlier Set calls (order %v, prior %v): %v", c.Order, c.Prior, err)
	}
	if cfg.Name != "metallb-node0" || len(cfg.Spec.NodeSelector.MatchExpressions) != 0 || !reflect.DeepEqual(cfg.Spec.NodeSelector.MatchLabels, map[string]string{"kubernetes.io/hostname": "node0"}) {
		return vw.Violationf("node-selector", "FRRConfiguration %q targets %v, expected this node only", cfg.Name, cfg.Spec.NodeSelector)
	}
	denoted := map[string]vw.RouteTable{}
	subset, repeated := false, false
	for _, s := range c.Sessions {
		var router *frrv1beta1.Router
		for i := range cfg.Spec.BGP.Routers {
			r := &cfg.Spec.BGP.Routers[i]
			if r.ASN == s.MyASN && r.VRF == s.VRF {
				router = r
			}
		}
		if router == nil {
			return vw.Violationf("router-missing", "no router %d/%q for session %s", s.MyASN, s.VRF, s.Name)
		}
		if router.ID != s.RouterID {
			return vw.Violationf("router-id", "router id %q, want %q", router.ID, s.RouterID)
		}
		var union []string
		for _, o := range c.Sessions {
			if o.MyASN == s.MyASN && o.VRF == s.VRF {
				for _, a := range o.Advs {
					union = append(union, a.Prefix)
				}
			}
		}
		if !reflect.DeepEqual(append([]string{}, router.Prefixes...), uniqSorted(union)) {
			return vw.Violationf("router-prefixes", "router %d/%q lists prefixes %v, union of requested prefixes is %v", s.MyASN, s.VRF, router.Prefixes, uniqSorted(union))
		}
		var n *frrv1beta1.Neighbor
		for i := range router.Neighbors {
			x := &router.Neighbors[i]
			if x.Address == s.Addr && x.Interface == s.Iface {
				if n != nil {
					return vw.Violationf("neighbor-duplicated", "neighbor %s%s twice in router %d/%q", s.Addr, s.Iface, s.MyASN, s.VRF)
				}
				n = x
			}
		}
		if n == nil {
			return vw.Violationf("neighbor-missing", "no neighbor for session %s", s.Name)
		}
		// session parameters
		dur := func(sec int) string {
			if sec == 0 {
				return "<nil>"
			}
			return (time.Duration(sec) * time.Second).String()
		}
		pd := func(d *metav1.Duration) string {
			if d == nil {
				return "<nil>"
			}
			return d.Duration.String()
		}
		port := uint16(0)
		if n.Port != nil {
			port = *n.Port
		}
		got := fmt.Sprintf("asn=%d dyn=%s port=%d hold=%s keep=%s connect=%s bfd=%q gr=%v mh=%v mp=%v pw=%q secret=%q src=%q", n.ASN, n.DynamicASN, port,
			pd(n.HoldTime), pd(n.KeepaliveTime), pd(n.ConnectTime), n.BFDProfile, n.EnableGracefulRestart, n.EBGPMultiHop, n.DisableMP, n.Password, n.PasswordSecret.Name, n.SourceAddress)
		want := fmt.Sprintf("asn=%d dyn=%s port=%d hold=%s keep=%s connect=%s bfd=%q gr=%v mh=%v mp=%v pw=%q secret=%q src=%q", s.PeerASN, s.DynamicASN, s.Port,
			dur(s.HoldSec), dur(s.KeepSec), dur(s.ConnectSec), s.BFD, s.Graceful, s.Multihop, s.DisableMP, s.Password, s.SecretRef, s.Src)
		if got != want {
			sig := "session-parameters"
			if strings.Replace(got, fmt.Sprintf("src=%q", n.SourceAddress), "", 1) == strings.Replace(want, fmt.Sprintf("src=%q", s.Src), "", 1) {
				sig = "session-parameters:source-address-dropped"
			}
			v := vw.Violationf("session-parameters", "neighbor of session %s carries [%s], requested [%s]", s.Name, got, want).WithSig(sig)
			if id := vw.KnownID("C15", v); id != "" {
				tr.Known(id) // listed finding: note it and keep judging the rest of the resource
			} else {
				return v
			}
		}
		if n.Password != "" && n.PasswordSecret.Name != "" {
			return vw.Violationf("password-and-secret", "neighbor of %s carries both", s.Name)
		}
		// allowed prefixes: exactly the requested ones, sorted, no duplicates
		var req []string
		comm := map[string][]string{}
		lps := map[uint32][]string{}
		for _, a := range s.Advs {
			req = append(req, a.Prefix)
			for _, cm := range a.Comms {
				comm[cm] = append(comm[cm], a.Prefix)
			}
			if a.LocalPref != 0 {
				lps[a.LocalPref] = append(lps[a.LocalPref], a.Prefix)
			}
		}
		if n.ToAdvertise.Allowed.Mode != "" && n.ToAdvertise.Allowed.Mode != frrv1beta1.AllowRestricted {
			return vw.Violationf("allowed-mode", "neighbor of %s allows mode %q", s.Name, n.ToAdvertise.Allowed.Mode)
		}
		if !reflect.DeepEqual(append([]string{}, n.ToAdvertise.Allowed.Prefixes...), uniqSorted(req)) {
			return vw.Violationf("allowed-prefixes", "neighbor of %s allows %v, requested (sorted, unique) %v", s.Name, n.ToAdvertise.Allowed.Prefixes, uniqSorted(req))
		}
		gotC := map[string][]string{}
		for _, cp := range n.ToAdvertise.PrefixesWithCommunity {
			if _, dup := gotC[cp.Community]; dup {
				return vw.Violationf("community-duplicated", "community %s listed twice for %s", cp.Community, s.Name)
			}
			gotC[cp.Community] = append([]string{}, cp.Prefixes...)
		}
		wantC := map[string][]string{}
		for k, v := range comm {
			wantC[k] = uniqSorted(v)
		}
		if !reflect.DeepEqual(gotC, wantC) {
			return vw.Violationf("community-prefixes", "neighbor of %s: communities %v, requested %v", s.Name, gotC, wantC)
		}
		gotL := map[uint32][]string{}
		for _, lp := range n.ToAdvertise.PrefixesWithLocalPref {
			if _, dup := gotL[lp.LocalPref]; dup || lp.LocalPref == 0 {
				return vw.Violationf("localpref-entry", "local preference %d listed twice or zero for %s", lp.LocalPref, s.Name)
			}
			gotL[lp.LocalPref] = append([]string{}, lp.Prefixes...)
		}
		wantL := map[uint32][]string{}
		for k, v := range lps {
			wantL[k] = uniqSorted(v)
		}
		if !reflect.DeepEqual(gotL, wantL) {
			return vw.Violationf("localpref-prefixes", "neighbor of %s: local preferences %v, requested %v", s.Name, gotL, wantL)
		}
		// the routes this neighbor block denotes (frr-k8s API semantics; a disableMP session carries its own family only)
		t := vw.RouteTable{}
		v4, v6 := s.Activated()
		for _, p := range n.ToAdvertise.Allowed.Prefixes {
			is6 := strings.Contains(p, ":")
			if (is6 && !v6) || (!is6 && !v4) {
				continue
			}
			r := vw.Route{}
			for _, lp := range n.ToAdvertise.PrefixesWithLocalPref {
				for _, q := range lp.Prefixes {
					if q == p {
						r.LocalPref = lp.LocalPref
					}
				}
			}
			for _, cp := range n.ToAdvertise.PrefixesWithCommunity {
				for _, q := range cp.Prefixes {
					if q == p {
						x := cp.Community
						if strings.HasPrefix(x, "large:") {
							x = strings.TrimPrefix(x, "large:") + "(large)"
						}
						r.Comms = append(r.Comms, x)
					}
				}
			}
			sort.Strings(r.Comms)
			t[p] = r
		}
		denoted[s.Name] = t
		if len(uniqSorted(req)) < len(uniqSorted(union)) {
			subset = true
		}
		if len(uniqSorted(req)) < len(req) {
			repeated = true
		}
	}
	// differential with FRR mode
	frrRoutes, text, err := frrmode.VerifRoutes(c.Sessions)
	if err != nil {
		panic("verif-inconclusive: FRR-mode interpretation failed: " + err.Error())
	}
	for _, s := range c.Sessions {
		if !denoted[s.Name].Equal(frrRoutes[s.Name]) {
			return vw.Violationf("backends-disagree", "session %s: the FRRConfiguration denotes [%s], the FRR-mode configuration offers [%s]\n%s", s.Name, denoted[s.Name], frrRoutes[s.Name], text)
		}
	}
	if subset {
		tr.Class("prefix-offered-to-strict-subset")
	}
	if repeated {
		tr.Class("repeated-prefix")
	}
	if (len(c.Sessions) >= 2 && subset) || repeated {
		tr.NonTrivial()
	}
	return nil
}

func TestVerifC15Config(t *testing.T) {
	vw.Run(t, vw.Options{Property: "C15", Engine: "frrk8s-config",
		Rule: "session sets as in C14 plus password / secret-reference combinations (one in twenty cases sets both on one session); real frrk8s NewSession/Set -> captured FRRConfiguration, judged against the frr-k8s API reading and against the routes the FRR-mode text offers for the same sessions; non-trivial = >=2 neighbors with a prefix requested by a strict subset, or a repeated prefix",
		Assumptions: []string{"sessions satisfy what the configuration layer guarantees in FRR mode", "a disableMP session carries only the family of its peer address (both backends)",
			"Allowed.Prefixes in the default (filtered) mode means exactly these prefixes"}},
		genC15, runC15)
}

// Witness of known finding C15-source-address-dropped.
func TestVerifC15Witness(t *testing.T) {
	c := c15Case{Sessions: []vw.BGPSession{{Name: "peer0", MyASN: 64512, PeerASN: 64512, Addr: "10.1.0.1", Src: "192.168.9.1"}}, Order: []int{0}, AdvPerm: [][]int{{}}}
	vw.RunFixed(t, vw.Options{Property: "C15", Engine: "frrk8s-witness", Rule: "fixed witness of the known finding"}, []c15Case{c}, runC15)
}

// C05 through this backend: what each neighbor of the produced FRRConfiguration is offered (prefixes, local
// preference, communities) must be exactly what was requested on its session - no attribute of another peer.
func TestVerifC05FRRK8s(t *testing.T) {
	vw.Run(t, vw.Options{Property: "C05", Engine: "frrk8s-backend",
		Rule:        "the session sets and advertisement lists of the C15 engine (several neighbors with different advertisements, repeated prefixes, communities, local preferences) through the real frr-k8s session manager; per neighbor the offered prefixes with their attributes must equal the request of that session; non-trivial as in C15",
		Assumptions: []string{"the speaker hands each session the advertisements of its peer (judged by the C05 speaker engine); this engine judges what the backend makes of them"}},
		genC15, runC15)
}

// C19 through this backend: the FRRConfiguration must be a function of the set of requests - the same requests
// submitted in another order (the speaker's map iteration does that by itself) must not look like a new
// configuration to the reconciler.
func TestVerifC19FRRK8sOrder(t *testing.T) {
	vw.Run(t, vw.Options{Property: "C19", Engine: "frrk8s-order",
		Rule:        "the session sets of the C15 engine submitted in generated session orders and advertisement orders (repeated prefixes with other prefixes in between): the produced FRRConfiguration must be identical, so that a resubmission of an unchanged state causes no rewrite; non-trivial as in C15",
		Assumptions: []string{"the reconciler compares the desired FRRConfiguration with the stored one"}},
		genC15, runC15)
}
