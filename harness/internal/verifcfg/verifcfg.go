// Package verifcfg (overlay-only) turns the plain-data cluster descriptions of
// internal/verifworld into config.ClusterResources.
package verifcfg

import (
	"go.universe.tf/metallb/internal/config"
	vw "go.universe.tf/metallb/internal/verifworld"
	corev1 "k8s.io/api/core/v1"
)

func Resources(c vw.ClusterSpec) config.ClusterResources {
	var r config.ClusterResources
	if c.Extras != "" {
		r.BGPExtras = corev1.ConfigMap{Data: map[string]string{"extras": c.Extras}}
	}
	for _, p := range c.Pools {
		r.Pools = append(r.Pools, p.CR())
	}
	for _, n := range c.Nodes {
		r.Nodes = append(r.Nodes, n.CR())
	}
	for _, n := range c.Namespaces {
		r.Namespaces = append(r.Namespaces, n.CR())
	}
	for _, a := range c.L2 {
		r.L2Advs = append(r.L2Advs, a.CR())
	}
	for _, a := range c.BGP {
		r.BGPAdvs = append(r.BGPAdvs, a.CR())
	}
	for _, p := range c.Peers {
		r.Peers = append(r.Peers, p.CR())
	}
	for _, x := range c.Comms {
		r.Communities = append(r.Communities, x.CR())
	}
	for _, x := range c.BFD {
		r.BFDProfiles = append(r.BFDProfiles, x.CR())
	}
	r.PasswordSecrets = map[string]corev1.Secret{}
	for _, p := range c.Peers {
		if crs := p.SecretCRs(); len(crs) > 0 {
			r.PasswordSecrets[crs[0].Name] = *crs[0] // the one in MetalLB's namespace
		}
	}
	return r
}

// Config parses the snapshot with the real config.For.
func Config(c vw.ClusterSpec, validate config.Validate) (*config.Config, error) {
	if validate == nil {
		validate = config.DontValidate
	}
	return config.For(Resources(c), validate)
}
