//go:build verif

package config

// C08 — an accepted configuration is sound. Oracle: the harness's own netip
// interval arithmetic and selector evaluation (internal/verifworld), never
// ParseCIDR / cidrsOverlap / selectedPools.

import (
	"fmt"
	"net"
	"net/netip"
	"sort"
	"strings"
	"testing"

	metallbv1beta1 "go.universe.tf/metallb/api/v1beta1"
	metallbv1beta2 "go.universe.tf/metallb/api/v1beta2"
	vw "go.universe.tf/metallb/internal/verifworld"
	corev1 "k8s.io/api/core/v1"
	"pgregory.net/rapid"
)

type c08Case struct {
	Pools      []vw.PoolSpec      `json:"pools"`
	Nodes      []vw.NodeSpec      `json:"nodes"`
	Namespaces []vw.NamespaceSpec `json:"namespaces"`
	L2         []vw.L2AdvSpec     `json:"l2"`
	BGP        []vw.BGPAdvSpec    `json:"bgp"`
	Peers      []vw.PeerSpec      `json:"peers"`
	Validator  int                `json:"validator"` // 0 none, 1 native, 2 frr
}

func (c c08Case) resources() ClusterResources {
	var r ClusterResources
	for _, p := range c.Pools {
		r.Pools = append(r.Pools, p.CR())
	}
	for _, n := range c.Nodes {
		r.Nodes = append(r.Nodes, n.CR())
	}
	for _, n := range c.Namespaces {
		r.Namespaces = append(r.Namespaces, n.CR())
	}
	for _, a := range c.L2 {
		r.L2Advs = append(r.L2Advs, a.CR())
	}
	for _, a := range c.BGP {
		r.BGPAdvs = append(r.BGPAdvs, a.CR())
	}
	for _, p := range c.Peers {
		r.Peers = append(r.Peers, p.CR())
	}
	r.PasswordSecrets = map[string]corev1.Secret{}
	return r
}

var _ = metallbv1beta1.IPAddressPool{}
var _ = metallbv1beta2.BGPPeer{}

// ---- address grammar ---------------------------------------------------------

func gen4(rt *rapid.T) string {
	third := rapid.SampledFrom([]int{0, 0, 0, 1}).Draw(rt, "o3")
	last := rapid.SampledFrom([]int{0, 1, 2, 3, 4, 5, 7, 8, 15, 16, 31, 32, 64, 127, 128, 200, 254, 255}).Draw(rt, "o4")
	return fmt.Sprintf("10.0.%d.%d", third, last)
}

func gen6(rt *rapid.T) string {
	hi := rapid.SampledFrom([]string{"fc00::", "fc00::", "fc00::1:", "fc00:0:0:1::"}).Draw(rt, "h6")
	lo := rapid.SampledFrom([]int{0, 1, 2, 3, 4, 7, 8, 15, 16, 255, 256, 65535}).Draw(rt, "l6")
	return fmt.Sprintf("%s%x", hi, lo)
}

func mapped(rt *rapid.T, a string) string {
	if rapid.IntRange(0, 5).Draw(rt, "mapK") == 0 {
		return "::ffff:" + a
	}
	return a
}

// genAddrString returns one entry of spec.addresses; class names what was intended.
func genAddrString(rt *rapid.T) string {
	switch rapid.IntRange(0, 39).Draw(rt, "addrK") {
	case 0, 1, 2, 3, 4: // v4 CIDR, possibly non-aligned
		a := gen4(rt)
		l := rapid.SampledFrom([]int{23, 24, 25, 28, 28, 29, 29, 30, 30, 31, 31, 32, 32, 32, 32, 16, 0}).Draw(rt, "len4")
		if rapid.IntRange(0, 7).Draw(rt, "map4") == 0 {
			return fmt.Sprintf("::ffff:%s/%d", a, 96+l)
		}
		return fmt.Sprintf("%s/%d", a, l)
	case 5, 6, 7, 8: // v4 range
		a, b := gen4(rt), gen4(rt)
		if vw.MustAddr(a).Compare(vw.MustAddr(b)) > 0 && rapid.IntRange(0, 9).Draw(rt, "rev") != 0 {
			a, b = b, a
		}
		sep := rapid.SampledFrom([]string{"-", "-", " - ", "- ", " -"}).Draw(rt, "sep")
		return mapped(rt, a) + sep + mapped(rt, b)
	case 9, 10, 11: // v6 CIDR
		a := gen6(rt)
		l := rapid.SampledFrom([]int{64, 112, 120, 124, 124, 126, 126, 127, 127, 128, 128, 128, 48, 0}).Draw(rt, "len6")
		return fmt.Sprintf("%s/%d", a, l)
	case 12, 13, 14: // v6 range
		a, b := gen6(rt), gen6(rt)
		if vw.MustAddr(a).Compare(vw.MustAddr(b)) > 0 && rapid.IntRange(0, 9).Draw(rt, "rev") != 0 {
			a, b = b, a
		}
		return a + rapid.SampledFrom([]string{"-", " - "}).Draw(rt, "sep") + b
	case 15: // single address range
		a := gen4(rt)
		return a + "-" + a
	case 16: // mixed family range
		if rapid.Bool().Draw(rt, "mixOrder") {
			return gen4(rt) + "-" + gen6(rt)
		}
		return gen6(rt) + "-" + gen4(rt)
	case 17: // range over the 2^64 boundary / large
		return rapid.SampledFrom([]string{"fc00::ffff:ffff:ffff:fffe-fc00:0:0:1::1", "fc00::-fc00::ffff:ffff:ffff:ffff", "10.0.0.250-10.0.1.5", "10.0.255.250-10.1.0.5"}).Draw(rt, "bigr")
	case 18:
		return rapid.SampledFrom([]string{"", "garbage", "10.0.0.1", "10.0.0.0/33", "fc00::/129", "10.0.0.5-", "-10.0.0.5", "10.0.0.256/24"}).Draw(rt, "bad")
	default:
		return gen4(rt) + "/32"
	}
}

func genC08(rt *rapid.T) c08Case {
	var c c08Case
	np := rapid.SampledFrom([]int{1, 1, 2, 2, 2, 3, 3, 4, 5}).Draw(rt, "npools")
	for i := 0; i < np; i++ {
		p := vw.PoolSpec{Name: fmt.Sprintf("pool%d", i), Labels: vw.GenLabels(rt, "plabels"), AvoidBuggy: rapid.Bool().Draw(rt, "buggy"),
			AutoAssign: rapid.IntRange(0, 2).Draw(rt, "auto")}
		na := rapid.SampledFrom([]int{1, 1, 1, 2, 2, 3}).Draw(rt, "naddr")
		for j := 0; j < na; j++ {
			p.Addresses = append(p.Addresses, genAddrString(rt))
		}
		if rapid.IntRange(0, 3).Draw(rt, "allocK") == 0 {
			p.Alloc = &vw.AllocSpec{Priority: rapid.IntRange(0, 3).Draw(rt, "prio"), NsSel: vw.GenSels(rt, "nssel", 2), SvcSel: vw.GenSels(rt, "svcsel", 2)}
			if rapid.Bool().Draw(rt, "nsNames") {
				p.Alloc.Namespaces = []string{"ns0"}
			}
		}
		c.Pools = append(c.Pools, p)
	}
	if rapid.IntRange(0, 19).Draw(rt, "dupPool") == 0 && np > 1 {
		c.Pools[np-1].Name = c.Pools[0].Name
	}
	nn := rapid.IntRange(0, 4).Draw(rt, "nnodes")
	for i := 0; i < nn; i++ {
		n := vw.NodeSpec{Name: fmt.Sprintf("node%d", i), Labels: vw.GenLabels(rt, "nlabels")}
		for j, k := 0, rapid.IntRange(0, 2).Draw(rt, "nips"); j < k; j++ {
			if rapid.IntRange(0, 3).Draw(rt, "ipfam") == 0 {
				n.IPs = append(n.IPs, rapid.SampledFrom([]string{gen6(rt), "fd00::1", "fd00::2"}).Draw(rt, "nip6"))
			} else {
				n.IPs = append(n.IPs, rapid.SampledFrom([]string{gen4(rt), "192.168.0.1", "10.0.3.7", "192.168.0.2", "10.0.2.1"}).Draw(rt, "nip"))
			}
		}
		c.Nodes = append(c.Nodes, n)
	}
	for i, k := 0, rapid.IntRange(0, 2).Draw(rt, "nns"); i < k; i++ {
		c.Namespaces = append(c.Namespaces, vw.NamespaceSpec{Name: fmt.Sprintf("ns%d", i), Labels: vw.GenLabels(rt, "nslabels")})
	}
	poolNames := func(label string) []string {
		var out []string
		for i := 0; i < np; i++ {
			if rapid.IntRange(0, 2).Draw(rt, label) == 0 {
				out = append(out, fmt.Sprintf("pool%d", i))
			}
		}
		if rapid.IntRange(0, 9).Draw(rt, label+"ghost") == 0 {
			out = append(out, "nosuchpool")
		}
		return out
	}
	for i, k := 0, rapid.IntRange(0, 3).Draw(rt, "nl2"); i < k; i++ {
		a := vw.L2AdvSpec{Name: fmt.Sprintf("l2adv%d", i), NodeSel: vw.GenSels(rt, "l2nodesel", 2)}
		if rapid.Bool().Draw(rt, "l2named") {
			a.Pools = poolNames("l2pool")
		}
		if rapid.IntRange(0, 2).Draw(rt, "l2sel") == 0 {
			a.PoolSel = vw.GenSels(rt, "l2poolsel", 2)
		}
		if rapid.IntRange(0, 2).Draw(rt, "l2if") == 0 {
			a.Interfaces = rapid.SampledFrom([][]string{{"eth0"}, {"eth0", "eth1"}, {"eth1", "eth0"}}).Draw(rt, "ifs")
		}
		c.L2 = append(c.L2, a)
	}
	npeers := rapid.IntRange(0, 3).Draw(rt, "npeers")
	for i := 0; i < npeers; i++ {
		c.Peers = append(c.Peers, vw.PeerSpec{Name: fmt.Sprintf("peer%d", i), MyASN: 64512, ASN: 64512 + uint32(i%2), Address: fmt.Sprintf("192.168.1.%d", i+1), NodeSel: vw.GenSels(rt, "peernodesel", 1)})
	}
	for i, k := 0, rapid.IntRange(0, 4).Draw(rt, "nbgp"); i < k; i++ {
		a := vw.BGPAdvSpec{Name: fmt.Sprintf("bgpadv%d", i), NodeSel: vw.GenSels(rt, "bgpnodesel", 2), Agg4: -1, Agg6: -1}
		if rapid.Bool().Draw(rt, "bgpnamed") {
			a.Pools = poolNames("bgppool")
		}
		if rapid.IntRange(0, 2).Draw(rt, "bgpsel") == 0 {
			a.PoolSel = vw.GenSels(rt, "bgppoolsel", 2)
		}
		if rapid.IntRange(0, 1).Draw(rt, "agg4K") == 0 {
			a.Agg4 = rapid.SampledFrom([]int{0, 8, 16, 22, 23, 24, 25, 28, 30, 31, 32}).Draw(rt, "agg4")
		}
		if rapid.IntRange(0, 1).Draw(rt, "agg6K") == 0 {
			a.Agg6 = rapid.SampledFrom([]int{0, 48, 64, 112, 120, 124, 126, 127, 128}).Draw(rt, "agg6")
		}
		a.LocalPref = rapid.SampledFrom([]uint32{0, 0, 100, 200}).Draw(rt, "lp")
		if rapid.IntRange(0, 2).Draw(rt, "commK") == 0 {
			a.Communities = rapid.SampledFrom([][]string{{"65000:1"}, {"65000:1", "65000:2"}, {"large:1:2:3"}}).Draw(rt, "comms")
		}
		if rapid.IntRange(0, 2).Draw(rt, "peersK") == 0 {
			a.Peers = rapid.SampledFrom([][]string{{"peer0"}, {"peer1"}, {"peer0", "peer1"}, {"peer2"}, {"ghostpeer"}}).Draw(rt, "advpeers")
		}
		c.BGP = append(c.BGP, a)
	}
	c.Validator = rapid.SampledFrom([]int{0, 0, 0, 1, 2}).Draw(rt, "validator")
	return c
}

// ---- oracle -------------------------------------------------------------------

// ipnetInterval is the set of addresses an *net.IPNet stands for (what IPNet.Contains accepts).
func ipnetInterval(n *net.IPNet) (vw.Interval, bool) {
	ip, mask := n.IP, n.Mask
	if v4 := ip.To4(); v4 != nil {
		ip = v4
		if len(mask) == 16 {
			for _, b := range mask[:12] {
				if b != 0xff {
					return vw.Interval{}, false
				}
			}
			mask = mask[12:]
		}
	}
	if len(ip) != len(mask) {
		return vw.Interval{}, false
	}
	lo := make([]byte, len(ip))
	hi := make([]byte, len(ip))
	for i := range ip {
		lo[i] = ip[i] & mask[i]
		hi[i] = lo[i] | ^mask[i]
	}
	l, _ := netip.AddrFromSlice(lo)
	h, _ := netip.AddrFromSlice(hi)
	return vw.Interval{Lo: l, Hi: h}, true
}

func runC08(c c08Case, tr *vw.Trace) *vw.Violation {
	validate := DontValidate
	switch c.Validator {
	case 1:
		validate = DiscardFRROnly
	case 2:
		validate = DiscardNativeOnly
	}
	cfg, err := For(c.resources(), validate)
	if err != nil {
		tr.Class("rejected")
		if strings.Contains(err.Error(), "overlaps") {
			tr.Class("rejected-overlap")
			tr.NonTrivial()
		}
		if strings.Contains(err.Error(), "contains nodeIp") {
			tr.Class("rejected-node-ip")
		}
		if strings.Contains(err.Error(), "aggregation length") {
			tr.Class("rejected-aggregation")
		}
		if strings.Contains(err.Error(), "local prefer") {
			tr.Class("rejected-localpref")
		}
		return nil
	}
	tr.Class("accepted")
	if len(c.Pools) >= 2 {
		tr.NonTrivial()
	}
	// (1) exact address sets
	var all []struct {
		pool string
		iv   vw.Interval
	}
	for _, p := range c.Pools {
		got := cfg.Pools.ByName[p.Name]
		if got == nil {
			return vw.Violationf("pool-missing", "accepted configuration lost pool %q", p.Name)
		}
		var want []vw.Interval
		for _, s := range p.Addresses {
			iv, kind, _ := vw.ParseAddrSpec(s)
			switch kind {
			case vw.AddrBad:
				return vw.Violationf("accepted-ill-formed-address", "pool %q: %q was accepted (CIDRs %v) but is no CIDR and no single-family start-end range", p.Name, s, got.CIDR).
					WithSig("accepted-ill-formed:" + classifyBad(s))
			case vw.AddrExotic:
				tr.Class("exotic-skipped")
				return nil
			case vw.AddrRange:
				tr.Class("range")
			case vw.AddrCIDR:
				tr.Class("cidr")
			}
			if strings.Contains(s, "::ffff:") {
				tr.Class("ipv4-mapped")
			}
			want = append(want, iv)
			all = append(all, struct {
				pool string
				iv   vw.Interval
			}{p.Name, iv})
		}
		var have []vw.Interval
		for _, n := range got.CIDR {
			iv, ok := ipnetInterval(n)
			if !ok {
				return vw.Violationf("malformed-cidr", "pool %q: produced CIDR %v (ip % x mask % x) is not a usable prefix", p.Name, n, []byte(n.IP), []byte(n.Mask))
			}
			have = append(have, iv)
		}
		if len(got.CIDR) >= 2 && len(p.Addresses) == 1 {
			tr.Class("range-summarised")
			tr.NonTrivial()
		}
		if !vw.SameUnion(want, have) {
			return vw.Violationf("pool-address-set", "pool %q: user wrote %v = %v, configuration holds %v = %v", p.Name, p.Addresses, vw.Normalize(want), got.CIDR, vw.Normalize(have))
		}
		if got.AvoidBuggyIPs != p.AvoidBuggy || got.AutoAssign != p.Auto() {
			return vw.Violationf("pool-flags", "pool %q flags differ", p.Name)
		}
	}
	if len(cfg.Pools.ByName) != len(c.Pools) {
		return vw.Violationf("pool-count", "%d pools configured, %d written", len(cfg.Pools.ByName), len(c.Pools))
	}
	// (2) disjointness and node addresses
	for i := range all {
		for j := i + 1; j < len(all); j++ {
			if all[i].iv.Overlaps(all[j].iv) {
				mappedInvolved := false
				for _, p := range c.Pools {
					for _, s := range p.Addresses {
						if strings.Contains(s, "::ffff:") {
							mappedInvolved = true
						}
					}
				}
				return vw.Violationf("overlap-accepted", "accepted although %s (pool %s) overlaps %s (pool %s)", all[i].iv, all[i].pool, all[j].iv, all[j].pool).
					WithSig(fmt.Sprintf("overlap-accepted:mapped=%v", mappedInvolved))
			}
		}
	}
	for _, n := range c.Nodes {
		for _, s := range n.IPs {
			a := vw.MustAddr(s)
			for _, e := range all {
				if e.iv.Contains(a) {
					return vw.Violationf("node-ip-in-pool", "accepted although node %s internal IP %s lies in pool %s (%s)", n.Name, a, e.pool, e.iv)
				}
			}
		}
	}
	// (3) advertisement attachment
	nodesOf := func(sels []vw.Sel) map[string]bool {
		m := map[string]bool{}
		for _, n := range c.Nodes {
			if vw.AnyMatches(sels, n.AllLabels()) {
				m[n.Name] = true
			}
		}
		return m
	}
	targets := func(names []string, sels []vw.Sel, p vw.PoolSpec) bool {
		if len(names) == 0 && len(sels) == 0 {
			return true
		}
		for _, n := range names {
			if n == p.Name {
				return true
			}
		}
		for _, s := range sels {
			if s.Matches(p.Labels) {
				return true
			}
		}
		return false
	}
	keyNodes := func(m map[string]bool) string {
		var k []string
		for n, ok := range m {
			if ok {
				k = append(k, n)
			}
		}
		sort.Strings(k)
		return strings.Join(k, ",")
	}
	for _, p := range c.Pools {
		got := cfg.Pools.ByName[p.Name]
		wantL2 := map[string]bool{}
		for _, a := range c.L2 {
			if targets(a.Pools, a.PoolSel, p) {
				ifs := append([]string(nil), a.Interfaces...)
				sort.Strings(ifs)
				wantL2[fmt.Sprintf("nodes=%s ifs=%v all=%v", keyNodes(nodesOf(a.NodeSel)), ifs, len(ifs) == 0)] = true
			}
		}
		haveL2 := map[string]bool{}
		for _, a := range got.L2Advertisements {
			ifs := append([]string(nil), a.Interfaces...)
			sort.Strings(ifs)
			haveL2[fmt.Sprintf("nodes=%s ifs=%v all=%v", keyNodes(a.Nodes), ifs, a.AllInterfaces)] = true
		}
		if fmt.Sprint(sortedKeys(wantL2)) != fmt.Sprint(sortedKeys(haveL2)) {
			return vw.Violationf("l2-attachment", "pool %q: L2 advertisements attached %v, expected %v", p.Name, sortedKeys(haveL2), sortedKeys(wantL2))
		}
		wantBGP := map[string]bool{}
		var attached []vw.BGPAdvSpec
		for _, a := range c.BGP {
			if targets(a.Pools, a.PoolSel, p) {
				wantBGP[fmt.Sprintf("%s nodes=%s agg=%d/%d lp=%d peers=%v", a.Name, keyNodes(nodesOf(a.NodeSel)), a.AggV4(), a.AggV6(), a.LocalPref, a.Peers)] = true
				attached = append(attached, a)
			}
		}
		haveBGP := map[string]bool{}
		for _, a := range got.BGPAdvertisements {
			haveBGP[fmt.Sprintf("%s nodes=%s agg=%d/%d lp=%d peers=%v", a.Name, keyNodes(a.Nodes), a.AggregationLength, a.AggregationLengthV6, a.LocalPref, a.Peers)] = true
		}
		if fmt.Sprint(sortedKeys(wantBGP)) != fmt.Sprint(sortedKeys(haveBGP)) {
			return vw.Violationf("bgp-attachment", "pool %q: BGP advertisements attached %v, expected %v", p.Name, sortedKeys(haveBGP), sortedKeys(wantBGP))
		}
		if len(attached) > 0 {
			tr.Class("bgp-attached")
		}
		// (4) aggregates stay inside the pool's CIDRs
		hasV4, hasV6 := false, false
		for _, s := range p.Addresses {
			iv, kind, bits := vw.ParseAddrSpec(s)
			if iv.V4() {
				hasV4 = true
			} else {
				hasV6 = true
			}
			if kind != vw.AddrCIDR {
				continue
			}
			for _, a := range attached {
				agg := a.AggV6()
				if iv.V4() {
					agg = a.AggV4()
				}
				if agg < bits {
					return vw.Violationf("aggregate-escapes-pool", "pool %q: advertisement %s aggregates to /%d but the pool CIDR %s is a /%d: the aggregate of %s covers addresses outside the pool", p.Name, a.Name, agg, s, bits, iv.Lo)
				}
				if agg < iv.Lo.BitLen() {
					tr.Class("proper-aggregation")
				}
			}
		}
		// (5) local preference collisions
		for i := range attached {
			for j := i + 1; j < len(attached); j++ {
				a, b := attached[i], attached[j]
				if a.LocalPref == b.LocalPref {
					continue
				}
				sameAgg := (hasV4 && a.AggV4() == b.AggV4()) || (hasV6 && a.AggV6() == b.AggV6())
				commonNode := false
				bn := nodesOf(b.NodeSel)
				for n := range nodesOf(a.NodeSel) {
					if bn[n] {
						commonNode = true
					}
				}
				commonPeer := len(a.Peers) == 0 || len(b.Peers) == 0
				for _, x := range a.Peers {
					for _, y := range b.Peers {
						if x == y {
							commonPeer = true
						}
					}
				}
				if sameAgg && commonNode && commonPeer {
					return vw.Violationf("localpref-collision-accepted", "pool %q: advertisements %s (localpref %d) and %s (localpref %d) give the same route different local preferences on a common node and peer", p.Name, a.Name, a.LocalPref, b.Name, b.LocalPref)
				}
				tr.Class("localpref-differs-compatible")
			}
		}
	}
	return nil
}

func classifyBad(s string) string {
	if strings.Contains(s, "-") {
		fs := strings.SplitN(s, "-", 2)
		a, e1 := netip.ParseAddr(strings.TrimSpace(fs[0]))
		b, e2 := netip.ParseAddr(strings.TrimSpace(fs[1]))
		if e1 == nil && e2 == nil {
			if a.Unmap().Is4() != b.Unmap().Is4() {
				return "mixed-family-range"
			}
			return "reversed-range"
		}
	}
	return "garbage"
}

func sortedKeys(m map[string]bool) []string {
	var k []string
	for s := range m {
		k = append(k, s)
	}
	sort.Strings(k)
	return k
}

func TestVerifC08Config(t *testing.T) {
	vw.Run(t, vw.Options{Property: "C08", Engine: "config",
		Rule: "1..5 pools with 1..3 address entries drawn from a small colliding v4/v6 space in every notation (aligned/non-aligned CIDR, ranges with spaces, IPv4-mapped spellings, mixed-family and reversed ranges, boundary-crossing ranges), 0..4 nodes with internal IPs, L2/BGP advertisements with pool names, pool selectors, node selectors, aggregation lengths, localprefs, peer lists -> config.For; non-trivial = accepted with >=2 pools, or a range summarised into >=2 CIDRs, or a rejection caused by overlap",
		Assumptions: []string{"an IPv4-mapped IPv6 spelling denotes the IPv4 address; a CIDR written with host bits denotes its network",
			"only notations produced by the harness grammar are judged; IPv4-mapped prefixes shorter than /96 are skipped"}},
		genC08, runC08)
}

// Native fuzz target (thorough tier): ParseCIDR on arbitrary strings. Oracle: never panics; an accepted
// string yields a non-empty, single-family set of prefixes; and whenever the harness's own parser
// recognises the notation, exactly the addresses it denotes.
func FuzzVerifC08ParseCIDR(f *testing.F) {
	for _, s := range []string{"10.0.0.0/24", "10.0.0.5/24", "10.0.0.1-10.0.0.9", "10.0.0.250 - 10.0.1.5", "::ffff:10.0.0.0/120", "::ffff:10.0.0.1-10.0.0.9",
		"fc00::/64", "fc00::1-fc00::ffff", "fc00::ffff:ffff:ffff:fffe-fc00:0:0:1::1", "10.0.0.1-fc00::1", "10.0.0.9-10.0.0.1", "0.0.0.0/0", "::/0", "10.0.0.0/32", "fc00::/128", "", "-", "1.2.3.4"} {
		f.Add(s)
	}
	f.Fuzz(func(t *testing.T, s string) {
		nets, err := ParseCIDR(s)
		if err != nil {
			return
		}
		if len(nets) == 0 {
			t.Fatalf("ParseCIDR(%q) accepted the string but produced no prefix", s)
		}
		var have []vw.Interval
		v4 := 0
		for _, n := range nets {
			iv, ok := ipnetInterval(n)
			if !ok {
				t.Fatalf("ParseCIDR(%q) produced an unusable prefix %v", s, n)
			}
			if iv.V4() {
				v4++
			}
			have = append(have, iv)
		}
		if v4 != 0 && v4 != len(nets) {
			t.Fatalf("ParseCIDR(%q) mixes families: %v", s, nets)
		}
		if iv, kind, _ := vw.ParseAddrSpec(s); kind == vw.AddrCIDR || kind == vw.AddrRange {
			if !vw.SameUnion([]vw.Interval{iv}, have) {
				t.Fatalf("ParseCIDR(%q) = %v = %v, the notation denotes %v", s, nets, vw.Normalize(have), iv)
			}
		}
	})
}
