//go:build verif && go1.25

package controllers

// C19 (frr-k8s variant): the debouncer between FRRK8sReconciler.UpdateConfig and the
// reconcile queue, inside a testing/synctest bubble.

import (
	"fmt"
	"testing"
	"testing/synctest"
	"time"

	vw "go.universe.tf/metallb/internal/verifworld"
	"pgregory.net/rapid"
	"sigs.k8s.io/controller-runtime/pkg/event"
)

type c19kCase struct {
	Delays   []int64 `json:"delays_ns"`
	Consumer int64   `json:"consumer_ns"`        // how long the queue takes to accept an event
	Start    int64   `json:"start_ns,omitempty"` // the consumer only starts receiving after this long (event sources not started yet)
}

func TestVerifC19FRRK8s(t *testing.T) {
	const interval = int64(3 * time.Second)
	vw.Run(t, vw.Options{Property: "C19", Engine: "frrk8s-debouncer",
		Rule:        "1..12 UpdateConfig signals at inter-arrival times around the 3 s window (+-1 ns, equal, multiples) and a consumer that accepts events after 0..7 s (i.e. may still be busy when the next window expires) and may start late, on the virtual clock; one reload event per window, at least one event after the last signal, bounded blocking; non-trivial = >=2 signals inside one window",
		Assumptions: []string{"go1.26.8 testing/synctest", "the reconciler reads the latest desired configuration when the event is handled, so one event after the last update suffices"}},
		func(rt *rapid.T) c19kCase {
			c := c19kCase{Consumer: rapid.SampledFrom([]int64{0, 0, 1, int64(time.Second), int64(2 * time.Second), int64(4 * time.Second), int64(7 * time.Second)}).Draw(rt, "consumer"),
				Start: rapid.SampledFrom([]int64{0, 0, 0, int64(2 * time.Second), int64(5 * time.Second)}).Draw(rt, "start")}
			marks := []int64{0, 1, int64(time.Millisecond), interval - 1, interval, interval + 1, interval / 2, 2 * interval, int64(10 * time.Second)}
			for i, n := 0, rapid.IntRange(1, 12).Draw(rt, "n"); i < n; i++ {
				c.Delays = append(c.Delays, rapid.SampledFrom(marks).Draw(rt, "delay"))
			}
			return c
		},
		func(c c19kCase, tr *vw.Trace) *vw.Violation {
			var sent, recv, latency []int64
			synctest.Test(t, func(t *testing.T) {
				start := time.Now()
				now := func() int64 { return int64(time.Since(start)) }
				in := make(chan struct{})
				out := make(chan event.GenericEvent)
				debouncer(in, out, time.Duration(interval))
				done := make(chan struct{})
				go func() {
					time.Sleep(time.Duration(c.Start))
					for {
						select {
						case <-out:
							recv = append(recv, now())
							if c.Consumer > 0 {
								time.Sleep(time.Duration(c.Consumer))
							}
						case <-done:
							return
						}
					}
				}()
				for _, d := range c.Delays {
					time.Sleep(time.Duration(d))
					t0 := now()
					in <- struct{}{}
					sent = append(sent, now())
					latency = append(latency, now()-t0)
				}
				time.Sleep(time.Duration(4*interval + 4*c.Consumer + c.Start))
				close(in)
				close(done)
				synctest.Wait()
			})
			inWindow := false
			for i := 1; i < len(sent); i++ {
				if sent[i]-sent[i-1] < interval {
					inWindow = true
				}
			}
			if inWindow {
				tr.NonTrivial()
			}
			for i, l := range latency {
				if l > c.Consumer+c.Start {
					return vw.Violationf("updateconfig-blocked", "signal %d was blocked for %v (consumer takes %v)", i, time.Duration(l), time.Duration(c.Consumer))
				}
			}
			if len(recv) == 0 || recv[len(recv)-1] < sent[len(sent)-1] {
				return vw.Violationf("no-event-after-last-update", "signals completed at %v, reload events at %v: none after the last update", sent, recv)
			}
			if len(recv) > len(sent) {
				return vw.Violationf("more-events-than-updates", "%d reload events for %d updates", len(recv), len(sent))
			}
			// coalescing: two events are at least one window apart, and every event follows a signal by at least the window
			for i := range recv {
				if i > 0 && recv[i]-recv[i-1] < interval {
					return vw.Violationf("not-coalesced", "reload events at %v are closer than the %v window (signals %v)", recv, time.Duration(interval), sent)
				}
				first := int64(-1)
				for _, s := range sent {
					if s <= recv[i]-interval {
						first = s
					}
				}
				if first < 0 {
					return vw.Violationf("event-too-early", "reload event at %d is less than one window after the first signal (signals %v)", recv[i], sent)
				}
			}
			_ = fmt.Sprint
			return nil
		})
}
