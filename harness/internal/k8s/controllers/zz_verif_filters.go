//go:build verif

package controllers

// Verification-only helpers (injected by `go test -overlay`, never part of a normal build).
//
// The reconcilers only see the update events their SetupWithManager lets through. The filter
// functions are the real ones; the way PoolReconciler / ConfigReconciler combine them is re-stated
// here because SetupWithManager builds the predicate inline.

import (
	"sigs.k8s.io/controller-runtime/pkg/client"
	"sigs.k8s.io/controller-runtime/pkg/event"
)

// VerifPoolUpdatePasses: would an update old -> new of a watched object reach PoolReconciler.Reconcile?
func VerifPoolUpdatePasses(oldObj, newObj client.Object) bool {
	e := event.UpdateEvent{ObjectOld: oldObj, ObjectNew: newObj}
	return filterNodeEvent(e) && filterNamespaceEvent(e) && filterPoolStatusEvent(e)
}

// VerifConfigUpdatePasses: the same for ConfigReconciler.
func VerifConfigUpdatePasses(oldObj, newObj client.Object) bool {
	e := event.UpdateEvent{ObjectOld: oldObj, ObjectNew: newObj}
	return filterNodeEvent(e) && filterNamespaceEvent(e) && filterConfigmapEvent(e)
}
