//go:build verif

package controllers

// C18 — configuration loading is order independent and repeatable.
// Metamorphic relation: toConfig(S) == toConfig(sigma(S)) == toConfig(S) again,
// compared with reflect.DeepEqual exactly as the reconcilers compare.

import (
	"context"
	"fmt"
	"reflect"
	"strings"
	"testing"

	"github.com/go-kit/log"
	"go.universe.tf/metallb/internal/config"
	"go.universe.tf/metallb/internal/verifcfg"
	vw "go.universe.tf/metallb/internal/verifworld"
	corev1 "k8s.io/api/core/v1"
	metav1 "k8s.io/apimachinery/pkg/apis/meta/v1"
	"k8s.io/apimachinery/pkg/types"
	"pgregory.net/rapid"
	ctrl "sigs.k8s.io/controller-runtime"
)

type c18Perm struct {
	Pools, Peers, BFD, L2, BGP, Comms, Nodes, Namespaces []int
}

type c18Case struct {
	Cluster   vw.ClusterSpec `json:"cluster"`
	Perms     []c18Perm      `json:"perms"`
	Validator int            `json:"validator"`
	Repeat    int            `json:"repeat"`
}

func permOf(rt *rapid.T, n int, label string) []int {
	idx := make([]int, n)
	for i := range idx {
		idx[i] = i
	}
	if n < 2 {
		return idx
	}
	return rapid.Permutation(idx).Draw(rt, label)
}

func applyPerm[T any](in []T, p []int) []T {
	if len(p) != len(in) {
		return in
	}
	out := make([]T, len(in))
	for i, j := range p {
		if j < 0 || j >= len(in) {
			return in
		}
		out[i] = in[j]
	}
	return out
}

func genC18Cluster(rt *rapid.T) vw.ClusterSpec {
	o := vw.ClusterOpts{MinPools: 1, MaxPools: 6, MaxAtomsPerPool: 2, BigAtoms: true, Namespaces: 3, MinNodes: 0, MaxNodes: 4, L2: 4, BGP: 5, Peers: 4, Alloc: true, Extra: true}
	c := vw.GenCluster(rt, o)
	cl := &c
	// several pools pinned to one namespace / selected by service selectors
	if rapid.IntRange(0, 2).Draw(rt, "pinSame") == 0 {
		for i := range cl.Pools {
			if rapid.IntRange(0, 1).Draw(rt, "pin") == 0 {
				cl.Pools[i].Alloc = &vw.AllocSpec{Priority: rapid.IntRange(0, 2).Draw(rt, "pprio"), Namespaces: []string{"ns0"}}
				if rapid.IntRange(0, 2).Draw(rt, "pinTwo") == 0 {
					cl.Pools[i].Alloc.Namespaces = []string{"ns1", "ns0"}
				}
			}
		}
	}
	// now and then an invalid snapshot: acceptance must not depend on order either
	switch rapid.IntRange(0, 11).Draw(rt, "break") {
	case 0:
		if len(cl.Pools) >= 2 {
			cl.Pools[len(cl.Pools)-1].Addresses = append(cl.Pools[len(cl.Pools)-1].Addresses, cl.Pools[0].Addresses[0])
		}
	case 1:
		if len(cl.BGP) >= 2 {
			cl.BGP[1].LocalPref = cl.BGP[0].LocalPref + 7
			cl.BGP[1].Pools, cl.BGP[1].PoolSel, cl.BGP[0].Pools, cl.BGP[0].PoolSel = nil, nil, nil, nil
		}
	case 2:
		if len(cl.Comms) >= 2 {
			cl.Comms[1].Aliases = cl.Comms[0].Aliases
		}
	case 3:
		if len(cl.Peers) >= 2 {
			cl.Peers[1].RouterID = "1.2.3.4"
		}
	case 4:
		if len(cl.Peers) >= 2 {
			cl.Peers[1].Address = cl.Peers[0].Address
		}
	}
	return c
}

func genC18Perm(rt *rapid.T, cl vw.ClusterSpec) c18Perm {
	return c18Perm{
		Pools: permOf(rt, len(cl.Pools), "pPools"), Peers: permOf(rt, len(cl.Peers), "pPeers"), BFD: permOf(rt, len(cl.BFD), "pBFD"),
		L2: permOf(rt, len(cl.L2), "pL2"), BGP: permOf(rt, len(cl.BGP), "pBGP"), Comms: permOf(rt, len(cl.Comms), "pComms"),
		Nodes: permOf(rt, len(cl.Nodes), "pNodes"), Namespaces: permOf(rt, len(cl.Namespaces), "pNs")}
}

func genC18(rt *rapid.T) c18Case {
	c := c18Case{Cluster: genC18Cluster(rt), Validator: rapid.SampledFrom([]int{0, 0, 0, 0, 1, 2, 2}).Draw(rt, "validator"), Repeat: rapid.IntRange(1, 3).Draw(rt, "repeat")}
	np := rapid.IntRange(1, 4).Draw(rt, "nperms")
	for i := 0; i < np; i++ {
		c.Perms = append(c.Perms, genC18Perm(rt, c.Cluster))
	}
	return c
}

func isIdentity(p []int) bool {
	for i, j := range p {
		if i != j {
			return false
		}
	}
	return true
}

func (p c18Perm) nonTrivial() bool {
	for _, q := range [][]int{p.Pools, p.Peers, p.BFD, p.L2, p.BGP, p.Comms, p.Nodes, p.Namespaces} {
		if len(q) >= 3 && !isIdentity(q) {
			return true
		}
	}
	return false
}

func c18Validator(k int) config.Validate {
	switch k {
	case 1:
		return config.DiscardFRROnly
	case 2:
		return config.DiscardNativeOnly
	}
	return config.DontValidate
}

func c18Permuted(cl vw.ClusterSpec, p c18Perm) config.ClusterResources {
	r := verifcfg.Resources(cl)
	r.Pools = applyPerm(r.Pools, p.Pools)
	r.Peers = applyPerm(r.Peers, p.Peers)
	r.BFDProfiles = applyPerm(r.BFDProfiles, p.BFD)
	r.L2Advs = applyPerm(r.L2Advs, p.L2)
	r.BGPAdvs = applyPerm(r.BGPAdvs, p.BGP)
	r.Communities = applyPerm(r.Communities, p.Comms)
	r.Nodes = applyPerm(r.Nodes, p.Nodes)
	r.Namespaces = applyPerm(r.Namespaces, p.Namespaces)
	return r
}

func c18Classes(cl vw.ClusterSpec, tr *vw.Trace) {
	if len(cl.Pools) >= 3 || len(cl.BGP) >= 3 || len(cl.L2) >= 3 || len(cl.Peers) >= 3 {
		tr.Class("three-of-a-kind")
	}
	nsCount := map[string]int{}
	for _, p := range cl.Pools {
		if p.Alloc != nil {
			for _, n := range p.Alloc.Namespaces {
				nsCount[n]++
			}
		}
	}
	for _, n := range nsCount {
		if n >= 2 {
			tr.Class("pools-pinned-to-same-namespace")
			break
		}
	}
}

func runC18(c c18Case, tr *vw.Trace) *vw.Violation {
	validate := c18Validator(c.Validator)
	base := verifcfg.Resources(c.Cluster)
	ref, refErr := toConfig(base, validate)
	if refErr != nil {
		tr.Class("rejected")
		tr.Class("rejected:" + errClass(refErr))
	} else {
		tr.Class("accepted")
	}
	c18Classes(c.Cluster, tr)
	// repetition: on the very same in-memory snapshot first (the computation must not leave anything behind in
	// its input that changes the next result), then on fresh copies of it
	for i := 0; i < c.Repeat; i++ {
		res := base
		if i > 0 {
			res = verifcfg.Resources(c.Cluster)
		}
		again, err := toConfig(res, validate)
		if (err == nil) != (refErr == nil) {
			return vw.Violationf("repeat-acceptance-differs", "same snapshot: first %v, repetition %v", refErr, err)
		}
		if err == nil && !reflect.DeepEqual(ref, again) {
			return vw.Violationf("repeat-config-differs", "toConfig on the same snapshot twice gives different values: %s", diffConfig(ref, again)).WithSig(diffSig(ref, again))
		}
	}
	for _, p := range c.Perms {
		if p.nonTrivial() {
			tr.NonTrivial()
		}
		got, err := toConfig(c18Permuted(c.Cluster, p), validate)
		if (err == nil) != (refErr == nil) {
			return vw.Violationf("order-acceptance-differs", "listing order changes acceptance: original order: %v; permuted: %v", refErr, err)
		}
		if err == nil && !reflect.DeepEqual(ref, got) {
			return vw.Violationf("order-config-differs", "listing order changes the configuration: %s", diffConfig(ref, got)).WithSig(diffSig(ref, got))
		}
	}
	return nil
}

func errClass(err error) string {
	m := err.Error()
	for _, k := range []string{"overlaps", "aggregation length", "local prefer", "duplicate definition of community", "RouterID", "already exists", "ipv6", "legacy", "bfd", "myAsn"} {
		if strings.Contains(m, k) {
			return k
		}
	}
	if len(m) > 40 {
		m = m[:40]
	}
	return m
}

// diffSig names the part of the configuration that differs (stable text).
func diffSig(a, b *config.Config) string {
	switch {
	case !reflect.DeepEqual(a.Peers, b.Peers):
		return "differs:peers"
	case !reflect.DeepEqual(a.BFDProfiles, b.BFDProfiles):
		return "differs:bfd"
	case !reflect.DeepEqual(a.Pools.ByNamespace, b.Pools.ByNamespace):
		return "differs:pools-by-namespace"
	case !reflect.DeepEqual(a.Pools.ByServiceSelector, b.Pools.ByServiceSelector):
		return "differs:pools-by-service-selector"
	case !reflect.DeepEqual(a.Pools.ByName, b.Pools.ByName):
		return "differs:pools-by-name"
	}
	return "differs:other"
}

func diffConfig(a, b *config.Config) string {
	s := diffSig(a, b)
	switch s {
	case "differs:pools-by-namespace":
		return fmt.Sprintf("%s %v vs %v", s, a.Pools.ByNamespace, b.Pools.ByNamespace)
	case "differs:pools-by-name":
		for n, p := range a.Pools.ByName {
			q := b.Pools.ByName[n]
			if q == nil || !reflect.DeepEqual(p, q) {
				var an, bn []string
				for _, x := range p.BGPAdvertisements {
					an = append(an, x.Name)
				}
				if q != nil {
					for _, x := range q.BGPAdvertisements {
						bn = append(bn, x.Name)
					}
					return fmt.Sprintf("%s pool %s: bgp advertisements %v vs %v; l2 %d vs %d; cidrs %v vs %v", s, n, an, bn, len(p.L2Advertisements), len(q.L2Advertisements), p.CIDR, q.CIDR)
				}
				return fmt.Sprintf("%s pool %s missing", s, n)
			}
		}
	}
	return s
}

func TestVerifC18ToConfig(t *testing.T) {
	vw.Run(t, vw.Options{Property: "C18", Engine: "toconfig",
		Rule:        "cluster snapshots (1..6 disjoint pools incl. several pinned to one namespace, up to 4 peers, 4 L2 / 5 BGP advertisements, communities, BFD profiles, nodes, namespaces; about one in three deliberately invalid) x 1..4 random permutations of every listed kind x 1..3 repetitions -> toConfig, compared with reflect.DeepEqual; non-trivial = a non-identity permutation of a kind with >=3 objects",
		Assumptions: []string{"reflect.DeepEqual is the comparison the reconcilers use (config_controller.go, pool_controller.go)"}},
		genC18, runC18)
}

// ---- reconciler level: an unchanged snapshot, re-listed in any order, never reaches the handler again ----

type c18RecCase struct {
	Cluster   vw.ClusterSpec `json:"cluster"`
	Perms     []c18Perm      `json:"perms"`
	Validator int            `json:"validator"`
	Pool      bool           `json:"pool_reconciler"`
	Results   []int          `json:"results"` // handler results in order: 0 success, 1 error (retry), 2 reprocess-all
	Touch     []int          `json:"touch"`   // before re-reconcile #i: 0 nothing, 1 node status heartbeat, 2 unrelated secret appears
}

func genC18Rec(rt *rapid.T) c18RecCase {
	c := c18RecCase{Cluster: genC18Cluster(rt), Validator: rapid.SampledFrom([]int{0, 0, 0, 2}).Draw(rt, "validator"), Pool: rapid.Bool().Draw(rt, "poolRec")}
	for i, n := 0, rapid.IntRange(1, 5).Draw(rt, "nperms"); i < n; i++ {
		c.Perms = append(c.Perms, genC18Perm(rt, c.Cluster))
		c.Touch = append(c.Touch, rapid.IntRange(0, 2).Draw(rt, "touch"))
	}
	c.Results = rapid.SliceOfN(rapid.SampledFrom([]int{0, 2, 2, 1}), 1, 4).Draw(rt, "results")
	return c
}

func applyWorldPerm(w *vw.World, base *vw.World, p c18Perm) {
	w.Pools = applyPerm(base.Pools, p.Pools)
	w.Peers = applyPerm(base.Peers, p.Peers)
	w.BFDs = applyPerm(base.BFDs, p.BFD)
	w.L2Advs = applyPerm(base.L2Advs, p.L2)
	w.BGPAdvs = applyPerm(base.BGPAdvs, p.BGP)
	w.Comms = applyPerm(base.Comms, p.Comms)
	w.Nodes = applyPerm(base.Nodes, p.Nodes)
	w.Namespaces = applyPerm(base.Namespaces, p.Namespaces)
}

func runC18Rec(c c18RecCase, tr *vw.Trace) *vw.Violation {
	base := vw.NewWorld()
	base.SetCluster(c.Cluster)
	w := vw.NewWorld()
	w.SetCluster(c.Cluster)
	calls, reloads := 0, 0
	next := func() SyncState {
		r := 0
		if calls < len(c.Results) {
			r = c.Results[calls]
		}
		calls++
		switch r {
		case 1:
			return SyncStateError
		case 2:
			tr.Class("handler-asked-reprocess-all")
			return SyncStateReprocessAll
		}
		return SyncStateSuccess
	}
	var reconcile func() error
	if c.Pool {
		r := &PoolReconciler{Client: w, Logger: log.NewNopLogger(), Namespace: vw.MetalNS, ValidateConfig: c18Validator(c.Validator),
			Handler: func(log.Logger, *config.Pools) SyncState { return next() }, ForceReload: func() { reloads++ }}
		reconcile = func() error {
			_, err := r.Reconcile(context.Background(), ctrl.Request{NamespacedName: types.NamespacedName{Namespace: vw.MetalNS, Name: "x"}})
			return err
		}
		tr.Class("pool-reconciler")
	} else {
		r := &ConfigReconciler{Client: w, Logger: log.NewNopLogger(), Namespace: vw.MetalNS, ValidateConfig: c18Validator(c.Validator),
			Handler: func(log.Logger, *config.Config) SyncState { return next() }, ForceReload: func() { reloads++ }}
		reconcile = func() error {
			_, err := r.Reconcile(context.Background(), ctrl.Request{NamespacedName: types.NamespacedName{Namespace: vw.MetalNS, Name: "x"}})
			return err
		}
		tr.Class("config-reconciler")
	}
	// converge: retry while the handler reports a transient error (as the work queue would)
	for i := 0; i < 8; i++ {
		if err := reconcile(); err == nil {
			break
		}
		tr.Class("retried-after-error")
	}
	if calls == 0 {
		tr.Class("snapshot-rejected")
	}
	c18Classes(c.Cluster, tr)
	c0, r0 := calls, reloads
	var unrelated []*corev1.Secret
	for i, p := range c.Perms {
		applyWorldPerm(w, base, p)
		switch c.Touch[i] {
		case 1:
			if len(w.Nodes) > 0 { // a status heartbeat: not part of the configuration
				n := w.Nodes[0].DeepCopy()
				n.Status.Phase = corev1.NodeRunning
				n.ResourceVersion = fmt.Sprint(i + 2)
				w.Nodes[0] = n
				tr.Class("unrelated-node-status-change")
			}
		case 2:
			unrelated = append(unrelated, &corev1.Secret{ObjectMeta: metav1.ObjectMeta{Name: fmt.Sprintf("unrelated%d", i), Namespace: vw.MetalNS}})
			tr.Class("unrelated-secret")
		}
		// the secrets (referenced ones, same-named ones of other namespaces, unrelated ones) are listed in another order each time
		w.Secrets = nil
		for j := range base.Secrets {
			k := j
			if i%2 == 0 {
				k = len(base.Secrets) - 1 - j
			}
			w.Secrets = append(w.Secrets, base.Secrets[k])
		}
		if i%3 == 0 {
			w.Secrets = append(append([]*corev1.Secret(nil), unrelated...), w.Secrets...)
		} else {
			w.Secrets = append(w.Secrets, unrelated...)
		}
		if len(base.Secrets) > 0 {
			tr.Class("peer-password-in-a-secret-with-a-same-named-secret-elsewhere")
		}
		if p.nonTrivial() || c.Touch[i] != 0 {
			tr.NonTrivial()
		}
		if err := reconcile(); err != nil {
			return vw.Violationf("rereconcile-error", "re-reconciling the unchanged snapshot returned %v", err)
		}
		if calls != c0 || reloads != r0 {
			which := "ConfigReconciler"
			if c.Pool {
				which = "PoolReconciler"
			}
			return vw.Violationf("unchanged-snapshot-reloaded", "%s: re-reconcile #%d of an unchanged snapshot (only the listing order / an unrelated object changed) invoked the handler %d more time(s) and requested %d more full re-sync(s); first handler results %v", which, i+1, calls-c0, reloads-r0, c.Results)
		}
	}
	return nil
}

func TestVerifC18Reconcilers(t *testing.T) {
	vw.Run(t, vw.Options{Property: "C18", Engine: "reconcilers",
		Rule:        "the real ConfigReconciler / PoolReconciler over the mini API server: converge on a generated snapshot (handler answering success / reprocess-all / transient error), then re-reconcile 1..5 times with permuted listing orders and unrelated changes (node status heartbeat, unrelated secret); handler invocations and forced re-syncs are counted; non-trivial = a non-identity permutation of >=3 objects or an unrelated change",
		Assumptions: []string{"a node status change and an unrelated secret are not part of the configuration"}},
		genC18Rec, runC18Rec)
}
