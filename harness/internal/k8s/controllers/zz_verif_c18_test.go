//go:build verif

package controllers

// C18 — configuration loading is order independent and repeatable.
// Metamorphic relation: toConfig(S) == toConfig(sigma(S)) == toConfig(S) again,
// compared with reflect.DeepEqual exactly as the reconcilers compare.

import (
	"fmt"
	"reflect"
	"strings"
	"testing"

	"go.universe.tf/metallb/internal/config"
	"go.universe.tf/metallb/internal/verifcfg"
	vw "go.universe.tf/metallb/internal/verifworld"
	"pgregory.net/rapid"
)

type c18Perm struct {
	Pools, Peers, BFD, L2, BGP, Comms, Nodes, Namespaces []int
}

type c18Case struct {
	Cluster   vw.ClusterSpec `json:"cluster"`
	Perms     []c18Perm      `json:"perms"`
	Validator int            `json:"validator"`
	Repeat    int            `json:"repeat"`
}

func permOf(rt *rapid.T, n int, label string) []int {
	idx := make([]int, n)
	for i := range idx {
		idx[i] = i
	}
	if n < 2 {
		return idx
	}
	return rapid.Permutation(idx).Draw(rt, label)
}

func applyPerm[T any](in []T, p []int) []T {
	if len(p) != len(in) {
		return in
	}
	out := make([]T, len(in))
	for i, j := range p {
		if j < 0 || j >= len(in) {
			return in
		}
		out[i] = in[j]
	}
	return out
}

func genC18Cluster(rt *rapid.T) vw.ClusterSpec {
	o := vw.ClusterOpts{MinPools: 1, MaxPools: 6, MaxAtomsPerPool: 2, BigAtoms: true, Namespaces: 3, MinNodes: 0, MaxNodes: 4, L2: 4, BGP: 5, Peers: 4, Alloc: true, Extra: true}
	c := vw.GenCluster(rt, o)
	cl := &c
	// several pools pinned to one namespace / selected by service selectors
	if rapid.IntRange(0, 2).Draw(rt, "pinSame") == 0 {
		for i := range cl.Pools {
			if rapid.IntRange(0, 1).Draw(rt, "pin") == 0 {
				cl.Pools[i].Alloc = &vw.AllocSpec{Priority: rapid.IntRange(0, 2).Draw(rt, "pprio"), Namespaces: []string{"ns0"}}
				if rapid.IntRange(0, 2).Draw(rt, "pinTwo") == 0 {
					cl.Pools[i].Alloc.Namespaces = []string{"ns1", "ns0"}
				}
			}
		}
	}
	// now and then an invalid snapshot: acceptance must not depend on order either
	switch rapid.IntRange(0, 11).Draw(rt, "break") {
	case 0:
		if len(cl.Pools) >= 2 {
			cl.Pools[len(cl.Pools)-1].Addresses = append(cl.Pools[len(cl.Pools)-1].Addresses, cl.Pools[0].Addresses[0])
		}
	case 1:
		if len(cl.BGP) >= 2 {
			cl.BGP[1].LocalPref = cl.BGP[0].LocalPref + 7
			cl.BGP[1].Pools, cl.BGP[1].PoolSel, cl.BGP[0].Pools, cl.BGP[0].PoolSel = nil, nil, nil, nil
		}
	case 2:
		if len(cl.Comms) >= 2 {
			cl.Comms[1].Aliases = cl.Comms[0].Aliases
		}
	case 3:
		if len(cl.Peers) >= 2 {
			cl.Peers[1].RouterID = "1.2.3.4"
		}
	case 4:
		if len(cl.Peers) >= 2 {
			cl.Peers[1].Address = cl.Peers[0].Address
		}
	}
	return c
}

func genC18Perm(rt *rapid.T, cl vw.ClusterSpec) c18Perm {
	return c18Perm{
		Pools: permOf(rt, len(cl.Pools), "pPools"), Peers: permOf(rt, len(cl.Peers), "pPeers"), BFD: permOf(rt, len(cl.BFD), "pBFD"),
		L2: permOf(rt, len(cl.L2), "pL2"), BGP: permOf(rt, len(cl.BGP), "pBGP"), Comms: permOf(rt, len(cl.Comms), "pComms"),
		Nodes: permOf(rt, len(cl.Nodes), "pNodes"), Namespaces: permOf(rt, len(cl.Namespaces), "pNs")}
}

func genC18(rt *rapid.T) c18Case {
	c := c18Case{Cluster: genC18Cluster(rt), Validator: rapid.SampledFrom([]int{0, 0, 0, 0, 1, 2, 2}).Draw(rt, "validator"), Repeat: rapid.IntRange(1, 3).Draw(rt, "repeat")}
	np := rapid.IntRange(1, 4).Draw(rt, "nperms")
	for i := 0; i < np; i++ {
		c.Perms = append(c.Perms, genC18Perm(rt, c.Cluster))
	}
	return c
}

func isIdentity(p []int) bool {
	for i, j := range p {
		if i != j {
			return false
		}
	}
	return true
}

func (p c18Perm) nonTrivial() bool {
	for _, q := range [][]int{p.Pools, p.Peers, p.BFD, p.L2, p.BGP, p.Comms, p.Nodes, p.Namespaces} {
		if len(q) >= 3 && !isIdentity(q) {
			return true
		}
	}
	return false
}

func c18Validator(k int) config.Validate {
	switch k {
	case 1:
		return config.DiscardFRROnly
	case 2:
		return config.DiscardNativeOnly
	}
	return config.DontValidate
}

func c18Permuted(cl vw.ClusterSpec, p c18Perm) config.ClusterResources {
	r := verifcfg.Resources(cl)
	r.Pools = applyPerm(r.Pools, p.Pools)
	r.Peers = applyPerm(r.Peers, p.Peers)
	r.BFDProfiles = applyPerm(r.BFDProfiles, p.BFD)
	r.L2Advs = applyPerm(r.L2Advs, p.L2)
	r.BGPAdvs = applyPerm(r.BGPAdvs, p.BGP)
	r.Communities = applyPerm(r.Communities, p.Comms)
	r.Nodes = applyPerm(r.Nodes, p.Nodes)
	r.Namespaces = applyPerm(r.Namespaces, p.Namespaces)
	return r
}

func c18Classes(cl vw.ClusterSpec, tr *vw.Trace) {
	if len(cl.Pools) >= 3 || len(cl.BGP) >= 3 || len(cl.L2) >= 3 || len(cl.Peers) >= 3 {
		tr.Class("three-of-a-kind")
	}
	nsCount := map[string]int{}
	for _, p := range cl.Pools {
		if p.Alloc != nil {
			for _, n := range p.Alloc.Namespaces {
				nsCount[n]++
			}
		}
	}
	for _, n := range nsCount {
		if n >= 2 {
			tr.Class("pools-pinned-to-same-namespace")
			break
		}
	}
}

func runC18(c c18Case, tr *vw.Trace) *vw.Violation {
	validate := c18Validator(c.Validator)
	base := verifcfg.Resources(c.Cluster)
	ref, refErr := toConfig(base, validate)
	if refErr != nil {
		tr.Class("rejected")
		tr.Class("rejected:" + errClass(refErr))
	} else {
		tr.Class("accepted")
	}
	c18Classes(c.Cluster, tr)
	// repetition on the very same snapshot
	for i := 0; i < c.Repeat; i++ {
		again, err := toConfig(verifcfg.Resources(c.Cluster), validate)
		if (err == nil) != (refErr == nil) {
			return vw.Violationf("repeat-acceptance-differs", "same snapshot: first %v, repetition %v", refErr, err)
		}
		if err == nil && !reflect.DeepEqual(ref, again) {
			return vw.Violationf("repeat-config-differs", "toConfig on the same snapshot twice gives different values: %s", diffConfig(ref, again)).WithSig(diffSig(ref, again))
		}
	}
	for _, p := range c.Perms {
		if p.nonTrivial() {
			tr.NonTrivial()
		}
		got, err := toConfig(c18Permuted(c.Cluster, p), validate)
		if (err == nil) != (refErr == nil) {
			return vw.Violationf("order-acceptance-differs", "listing order changes acceptance: original order: %v; permuted: %v", refErr, err)
		}
		if err == nil && !reflect.DeepEqual(ref, got) {
			return vw.Violationf("order-config-differs", "listing order changes the configuration: %s", diffConfig(ref, got)).WithSig(diffSig(ref, got))
		}
	}
	return nil
}

func errClass(err error) string {
	m := err.Error()
	for _, k := range []string{"overlaps", "aggregation length", "local prefer", "duplicate definition of community", "RouterID", "already exists", "ipv6", "legacy", "bfd", "myAsn"} {
		if strings.Contains(m, k) {
			return k
		}
	}
	if len(m) > 40 {
		m = m[:40]
	}
	return m
}

// diffSig names the part of the configuration that differs (stable text).
func diffSig(a, b *config.Config) string {
	switch {
	case !reflect.DeepEqual(a.Peers, b.Peers):
		return "differs:peers"
	case !reflect.DeepEqual(a.BFDProfiles, b.BFDProfiles):
		return "differs:bfd"
	case !reflect.DeepEqual(a.Pools.ByNamespace, b.Pools.ByNamespace):
		return "differs:pools-by-namespace"
	case !reflect.DeepEqual(a.Pools.ByServiceSelector, b.Pools.ByServiceSelector):
		return "differs:pools-by-service-selector"
	case !reflect.DeepEqual(a.Pools.ByName, b.Pools.ByName):
		return "differs:pools-by-name"
	}
	return "differs:other"
}

func diffConfig(a, b *config.Config) string {
	s := diffSig(a, b)
	switch s {
	case "differs:pools-by-namespace":
		return fmt.Sprintf("%s %v vs %v", s, a.Pools.ByNamespace, b.Pools.ByNamespace)
	case "differs:pools-by-name":
		for n, p := range a.Pools.ByName {
			q := b.Pools.ByName[n]
			if q == nil || !reflect.DeepEqual(p, q) {
				var an, bn []string
				for _, x := range p.BGPAdvertisements {
					an = append(an, x.Name)
				}
				if q != nil {
					for _, x := range q.BGPAdvertisements {
						bn = append(bn, x.Name)
					}
					return fmt.Sprintf("%s pool %s: bgp advertisements %v vs %v; l2 %d vs %d; cidrs %v vs %v", s, n, an, bn, len(p.L2Advertisements), len(q.L2Advertisements), p.CIDR, q.CIDR)
				}
				return fmt.Sprintf("%s pool %s missing", s, n)
			}
		}
	}
	return s
}

func TestVerifC18ToConfig(t *testing.T) {
	vw.Run(t, vw.Options{Property: "C18", Engine: "toconfig",
		Rule: "cluster snapshots (1..6 disjoint pools incl. several pinned to one namespace, up to 4 peers, 4 L2 / 5 BGP advertisements, communities, BFD profiles, nodes, namespaces; about one in three deliberately invalid) x 1..4 random permutations of every listed kind x 1..3 repetitions -> toConfig, compared with reflect.DeepEqual; non-trivial = a non-identity permutation of a kind with >=3 objects",
		Assumptions: []string{"reflect.DeepEqual is the comparison the reconcilers use (config_controller.go, pool_controller.go)"}},
		genC18, runC18)
}
