//go:build verif

package controllers

// C20 (frr-k8s reconciler): the speaker's handlers hand new FRRConfigurations to FRRK8sReconciler.UpdateConfig
// (through the frr-k8s session manager's callback) while the reconciler's own worker runs Reconcile. Built with
// -race. Every configuration the worker stores must be one a handler produced, and the last one stored must be the
// last one produced.

import (
	"context"
	"encoding/json"
	"sync"
	"testing"

	"github.com/go-kit/log"
	frrv1beta1 "github.com/metallb/frr-k8s/api/v1beta1"
	"go.universe.tf/metallb/internal/bgp"
	frrmode "go.universe.tf/metallb/internal/bgp/frr"
	frrk8s "go.universe.tf/metallb/internal/bgp/frrk8s"
	"go.universe.tf/metallb/internal/logging"
	vw "go.universe.tf/metallb/internal/verifworld"
	"k8s.io/apimachinery/pkg/runtime"
	"k8s.io/apimachinery/pkg/types"
	"pgregory.net/rapid"
	ctrl "sigs.k8s.io/controller-runtime"
	"sigs.k8s.io/controller-runtime/pkg/client"
	"sigs.k8s.io/controller-runtime/pkg/client/fake"
)

type c20kCase struct {
	Sessions []vw.BGPSession `json:"sessions"`
	Prior    [][]vw.BGPAdv   `json:"prior"`
	Rounds   []int           `json:"rounds"` // per round: which session is given which list (even: its own, odd: the prior one)
	Debug    bool            `json:"debug"`
}

func TestVerifC20FRRK8s(t *testing.T) {
	scheme := runtime.NewScheme()
	if err := frrv1beta1.AddToScheme(scheme); err != nil {
		t.Fatal(err)
	}
	vw.Run(t, vw.Options{Property: "C20", Engine: "frrk8s-reconciler-concurrent",
		Rule:        "1..4 sessions of the frr-k8s session manager are given alternating advertisement lists in 4..40 rounds by a handler goroutine (each Set hands a new FRRConfiguration to the real FRRK8sReconciler.UpdateConfig) while a worker goroutine runs Reconcile against controller-runtime's fake API server; built with -race; every stored configuration must be one that was handed over, the final one the last; every run counts as non-trivial",
		Assumptions: []string{"interleavings are produced by the Go scheduler, not enumerated"}},
		func(rt *rapid.T) c20kCase {
			c := c20kCase{Sessions: vw.GenBGPSessions(rt, true), Debug: rapid.Bool().Draw(rt, "debug")}
			for _, s := range c.Sessions {
				c.Prior = append(c.Prior, vw.GenPriorAdvs(rt, s.Advs))
			}
			c.Rounds = rapid.SliceOfN(rapid.IntRange(0, 7), 4, 40).Draw(rt, "rounds")
			return c
		},
		func(c c20kCase, tr *vw.Trace) *vw.Violation {
			if len(c.Sessions) == 0 {
				return nil
			}
			tr.NonTrivial()
			cl := fake.NewClientBuilder().WithScheme(scheme).Build()
			lvl := logging.Level(logging.LevelInfo)
			if c.Debug {
				lvl = logging.Level(logging.LevelDebug)
			}
			r := &FRRK8sReconciler{Client: cl, Logger: log.NewNopLogger(), LogLevel: lvl, Scheme: scheme, NodeName: "node0", FRRK8sNamespace: "frr-k8s-system"}
			r.configChangedChan = make(chan struct{}, 1<<20)
			var mu sync.Mutex
			handed := map[string]bool{}
			last := ""
			sm := frrk8s.NewSessionManager(log.NewNopLogger(), lvl, "node0", "frr-k8s-system")
			sm.SetEventCallback(func(cfg interface{}) {
				x := cfg.(frrv1beta1.FRRConfiguration)
				j, _ := json.Marshal(x.Spec)
				mu.Lock()
				handed[string(j)] = true
				last = string(j)
				mu.Unlock()
				r.UpdateConfig(cfg)
			})
			var handles []bgp.Session
			for _, s := range c.Sessions {
				h, err := sm.NewSession(log.NewNopLogger(), frrmode.VerifParams(s))
				if err != nil {
					return vw.Violationf("render-error", "%v", err)
				}
				handles = append(handles, h)
			}
			req := ctrl.Request{NamespacedName: types.NamespacedName{Namespace: "frr-k8s-system", Name: frrk8s.ConfigName("node0")}}
			key := client.ObjectKey{Namespace: "frr-k8s-system", Name: frrk8s.ConfigName("node0")}
			stop := make(chan struct{})
			var wg sync.WaitGroup
			var viol *vw.Violation
			storedOK := func(when string) *vw.Violation {
				var stored frrv1beta1.FRRConfiguration
				if err := cl.Get(context.Background(), key, &stored); err != nil {
					return nil // nothing stored yet
				}
				sj, _ := json.Marshal(stored.Spec)
				// the API round trip turns empty lists into absent ones: normalise the handed-over ones the same way
				mu.Lock()
				defer mu.Unlock()
				for h := range handed {
					var spec frrv1beta1.FRRConfigurationSpec
					_ = json.Unmarshal([]byte(h), &spec)
					hj, _ := json.Marshal(spec)
					if string(hj) == string(sj) {
						return nil
					}
				}
				return vw.Violationf("stored-config-never-handed-over", "%s: the stored FRRConfiguration %s equals none of the %d configurations the handlers produced", when, sj, len(handed))
			}
			wg.Add(1)
			go func() { // the reconciler's worker
				defer wg.Done()
				for {
					select {
					case <-stop:
						return
					default:
					}
					if _, err := r.Reconcile(context.Background(), req); err == nil {
						if v := storedOK("while handlers run"); v != nil && viol == nil {
							viol = v
						}
					}
				}
			}()
			for _, k := range c.Rounds { // the handlers
				i := (k / 2) % len(c.Sessions)
				s := c.Sessions[i]
				if k%2 == 1 {
					s.Advs = c.Prior[i]
				}
				_ = handles[i].Set(frrmode.VerifAdvs(s, nil)...)
			}
			close(stop)
			wg.Wait()
			if viol != nil {
				return viol
			}
			if _, err := r.Reconcile(context.Background(), req); err != nil {
				return vw.Violationf("reconcile-error", "%v", err)
			}
			var stored frrv1beta1.FRRConfiguration
			if err := cl.Get(context.Background(), key, &stored); err != nil {
				return vw.Violationf("not-stored", "%v", err)
			}
			sj, _ := json.Marshal(stored.Spec)
			var spec frrv1beta1.FRRConfigurationSpec
			_ = json.Unmarshal([]byte(last), &spec)
			lj, _ := json.Marshal(spec)
			if string(sj) != string(lj) {
				return vw.Violationf("stored-config-differs", "after the last reconcile the stored FRRConfiguration is not the last one handed over: stored %s, last %s", sj, lj)
			}
			return nil
		})
}
