//go:build verif

package controllers

// C15 (reconciler engine): the FRRConfiguration that reaches the API server through the real
// FRRK8sReconciler equals the one the session manager handed over, for every log level and any
// number of reconciles.

import (
	"context"
	"encoding/json"
	"testing"

	"github.com/go-kit/log"
	frrv1beta1 "github.com/metallb/frr-k8s/api/v1beta1"
	"go.universe.tf/metallb/internal/bgp"
	frrmode "go.universe.tf/metallb/internal/bgp/frr"
	frrk8s "go.universe.tf/metallb/internal/bgp/frrk8s"
	"go.universe.tf/metallb/internal/logging"
	vw "go.universe.tf/metallb/internal/verifworld"
	"k8s.io/apimachinery/pkg/runtime"
	"k8s.io/apimachinery/pkg/types"
	"pgregory.net/rapid"
	ctrl "sigs.k8s.io/controller-runtime"
	"sigs.k8s.io/controller-runtime/pkg/client"
	"sigs.k8s.io/controller-runtime/pkg/client/fake"
)

type c15rCase struct {
	Sessions   []vw.BGPSession `json:"sessions"`
	Debug      bool            `json:"debug"`
	Reconciles int             `json:"reconciles"`
	Updates    int             `json:"updates"` // how many times the final advertisement lists are re-submitted in between
}

func TestVerifC15Reconciler(t *testing.T) {
	scheme := runtime.NewScheme()
	if err := frrv1beta1.AddToScheme(scheme); err != nil {
		t.Fatal(err)
	}
	vw.Run(t, vw.Options{Property: "C15", Engine: "frrk8s-reconciler",
		Rule: "session sets as in C14/C15 through the real frr-k8s session manager wired to the real FRRK8sReconciler.UpdateConfig, 1..4 Reconcile calls against controller-runtime's fake API server at log level info or debug; the stored FRRConfiguration spec must equal the last one handed over; non-trivial = a session with a password or secret reference and >=2 reconciles"},
		func(rt *rapid.T) c15rCase {
			return c15rCase{Sessions: vw.GenBGPSessions(rt, true), Debug: rapid.Bool().Draw(rt, "debug"), Reconciles: rapid.IntRange(1, 4).Draw(rt, "reconciles"), Updates: rapid.IntRange(0, 2).Draw(rt, "updates")}
		},
		func(c c15rCase, tr *vw.Trace) *vw.Violation {
			if len(c.Sessions) == 0 {
				return nil
			}
			cl := fake.NewClientBuilder().WithScheme(scheme).Build()
			lvl := logging.Level(logging.LevelInfo)
			if c.Debug {
				lvl = logging.Level(logging.LevelDebug)
			}
			r := &FRRK8sReconciler{Client: cl, Logger: log.NewNopLogger(), LogLevel: lvl, Scheme: scheme, NodeName: "node0", FRRK8sNamespace: "frr-k8s-system"}
			r.configChangedChan = make(chan struct{}, 65536)
			var last *frrv1beta1.FRRConfiguration
			sm := frrk8s.NewSessionManager(log.NewNopLogger(), lvl, "node0", "frr-k8s-system")
			sm.SetEventCallback(func(cfg interface{}) {
				x := cfg.(frrv1beta1.FRRConfiguration)
				last = x.DeepCopy()
				r.UpdateConfig(cfg)
			})
			var handles []bgp.Session
			for _, s := range c.Sessions {
				h, err := sm.NewSession(log.NewNopLogger(), frrmode.VerifParams(s))
				if err != nil {
					return vw.Violationf("render-error", "%v", err)
				}
				handles = append(handles, h)
			}
			creds := false
			for i, s := range c.Sessions {
				if err := handles[i].Set(frrmode.VerifAdvs(s, nil)...); err != nil {
					return vw.Violationf("render-error", "%v", err)
				}
				if s.Password != "" || s.SecretRef != "" {
					creds = true
				}
			}
			req := ctrl.Request{NamespacedName: types.NamespacedName{Namespace: "frr-k8s-system", Name: frrk8s.ConfigName("node0")}}
			for i := 0; i < c.Reconciles; i++ {
				if _, err := r.Reconcile(context.Background(), req); err != nil {
					return vw.Violationf("reconcile-error", "reconcile %d: %v", i+1, err)
				}
				if i < c.Updates {
					for j, s := range c.Sessions {
						_ = handles[j].Set(frrmode.VerifAdvs(s, nil)...)
					}
				}
				var stored frrv1beta1.FRRConfiguration
				if err := cl.Get(context.Background(), client.ObjectKey{Namespace: "frr-k8s-system", Name: frrk8s.ConfigName("node0")}, &stored); err != nil {
					return vw.Violationf("not-stored", "after reconcile %d the FRRConfiguration is not in the API server: %v", i+1, err)
				}
				sj, _ := json.Marshal(stored.Spec) // the API round trip turns empty lists into absent ones: compare the serialised form
				lj, _ := json.Marshal(last.Spec)
				if string(sj) != string(lj) {
					return vw.Violationf("stored-config-differs", "after reconcile %d (log level debug=%v) the stored FRRConfiguration differs from the one the session manager handed over: stored %+v, handed over %+v", i+1, c.Debug, stored.Spec.BGP.Routers, last.Spec.BGP.Routers)
				}
			}
			if creds && c.Reconciles >= 2 {
				tr.NonTrivial()
			}
			if c.Debug {
				tr.Class("debug-log-level")
			}
			return nil
		})
}
