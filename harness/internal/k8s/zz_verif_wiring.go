//go:build verif

package k8s

// Verification-only helper (injected by `go test -overlay`, never part of a normal build).
//
// VerifWire runs the real New() so that the handlers the harnesses deliver events through are exactly
// the ones New hands to the reconcilers (the Listener methods, under its mutex - or whatever New is
// changed to hand out). The manager is built against a dummy rest.Config and a REST mapper derived
// from the scheme: nothing is dialled and nothing is started. controller-runtime refuses a controller
// name twice per process, so New is run once per process and the callbacks behind the Listener are
// swapped per case with VerifSetCallbacks.

import (
	"fmt"
	"net/http"
	"reflect"
	"sync"

	"github.com/go-kit/log"
	v1 "k8s.io/api/core/v1"
	discovery "k8s.io/api/discovery/v1"
	"k8s.io/apimachinery/pkg/api/meta"
	"k8s.io/client-go/rest"
	ctrl "sigs.k8s.io/controller-runtime"
	"sigs.k8s.io/controller-runtime/pkg/manager"

	"go.universe.tf/metallb/internal/config"
	"go.universe.tf/metallb/internal/k8s/controllers"
)

type VerifHandlers struct {
	Service func(log.Logger, string, *v1.Service, []discovery.EndpointSlice) controllers.SyncState
	Config  func(log.Logger, *config.Config) controllers.SyncState
	Pool    func(log.Logger, *config.Pools) controllers.SyncState
	Node    func(log.Logger, *v1.Node) controllers.SyncState
}

type verifCapturing struct {
	manager.Manager
	mu    sync.Mutex
	added []manager.Runnable
}

func (m *verifCapturing) Add(r manager.Runnable) error {
	m.mu.Lock()
	m.added = append(m.added, r)
	m.mu.Unlock()
	return m.Manager.Add(r)
}

var (
	verifOnce     sync.Once
	verifHandlers *VerifHandlers
	verifErr      error
	verifCurMu    sync.RWMutex
	verifCur      Listener // only the four callbacks are used
)

// VerifSetCallbacks installs the callbacks the wired handlers end in (the per-case controller / speaker).
func VerifSetCallbacks(l Listener) {
	verifCurMu.Lock()
	verifCur.ServiceChanged, verifCur.ConfigChanged, verifCur.PoolChanged, verifCur.NodeChanged = l.ServiceChanged, l.ConfigChanged, l.PoolChanged, l.NodeChanged
	verifCurMu.Unlock()
}

func verifCallbacks() Listener {
	verifCurMu.RLock()
	defer verifCurMu.RUnlock()
	return Listener{ServiceChanged: verifCur.ServiceChanged, ConfigChanged: verifCur.ConfigChanged, PoolChanged: verifCur.PoolChanged, NodeChanged: verifCur.NodeChanged}
}

// VerifWire: speaker = true wires what the speaker asks for (service with endpoints, config, node),
// otherwise what the controller asks for (service, pool).
func VerifWire(speaker bool) (*VerifHandlers, error) {
	verifOnce.Do(func() {
		oldGet, oldNew := ctrl.GetConfigOrDie, ctrl.NewManager
		defer func() { ctrl.GetConfigOrDie, ctrl.NewManager = oldGet, oldNew }()
		var captured *verifCapturing
		ctrl.GetConfigOrDie = func() *rest.Config { return &rest.Config{Host: "127.0.0.1:1"} }
		ctrl.NewManager = func(c *rest.Config, o manager.Options) (manager.Manager, error) {
			o.MapperProvider = func(*rest.Config, *http.Client) (meta.RESTMapper, error) {
				rm := meta.NewDefaultRESTMapper(nil)
				for gvk := range o.Scheme.AllKnownTypes() {
					rm.Add(gvk, meta.RESTScopeNamespace)
				}
				return rm, nil
			}
			m, err := manager.New(c, o)
			if err != nil {
				return nil, err
			}
			captured = &verifCapturing{Manager: m}
			return captured, nil
		}
		cfg := &Config{ProcessName: "verif", NodeName: "node0", Logger: log.NewNopLogger(), Namespace: "metallb-system",
			MetricsHost: "127.0.0.1", ValidateConfig: config.DontValidate, ReadEndpoints: speaker}
		cfg.ServiceChanged = func(l log.Logger, n string, s *v1.Service, e []discovery.EndpointSlice) controllers.SyncState {
			return verifCallbacks().ServiceChanged(l, n, s, e)
		}
		if speaker {
			cfg.ConfigChanged = func(l log.Logger, c *config.Config) controllers.SyncState {
				return verifCallbacks().ConfigChanged(l, c)
			}
			cfg.NodeChanged = func(l log.Logger, n *v1.Node) controllers.SyncState { return verifCallbacks().NodeChanged(l, n) }
		} else {
			cfg.PoolChanged = func(l log.Logger, p *config.Pools) controllers.SyncState { return verifCallbacks().PoolChanged(l, p) }
		}
		if _, err := New(cfg); err != nil {
			verifErr = fmt.Errorf("k8s.New: %w", err)
			return
		}
		if captured == nil {
			verifErr = fmt.Errorf("k8s.New did not build its manager through ctrl.NewManager")
			return
		}
		h := &VerifHandlers{}
		for _, r := range captured.added {
			v := reflect.ValueOf(r)
			if v.Kind() != reflect.Ptr || v.Elem().Kind() != reflect.Struct {
				continue
			}
			f := v.Elem().FieldByName("Do")
			if !f.IsValid() || !f.CanInterface() {
				continue
			}
			switch rec := f.Interface().(type) {
			case *controllers.ServiceReconciler:
				h.Service = rec.Handler
			case *controllers.ConfigReconciler:
				h.Config = rec.Handler
			case *controllers.PoolReconciler:
				h.Pool = rec.Handler
			case *controllers.NodeReconciler:
				h.Node = rec.Handler
			}
		}
		if h.Service == nil || (speaker && (h.Config == nil || h.Node == nil)) || (!speaker && h.Pool == nil) {
			verifErr = fmt.Errorf("reconcilers not found in the manager: %+v", h)
			return
		}
		verifHandlers = h
	})
	return verifHandlers, verifErr
}
