//go:build verif

package layer2

// Verification-only helpers (injected by `go test -overlay`, never part of a
// normal build): an Announce without the interface-scan / spam goroutines and
// read-only accessors, for harnesses living in other packages.

import (
	"net"
	"sort"

	"github.com/go-kit/log"
)

// VerifNewAnnounce builds an announcer that knows the given local interfaces
// and has no responders and no background goroutines.
func VerifNewAnnounce(ifaces []string) *Announce {
	return VerifNewAnnounceN(ifaces, 1<<16)
}

// VerifNewAnnounceN: as VerifNewAnnounce with a queue of n unsolicited announcements (production: 1024).
func VerifNewAnnounceN(ifaces []string, n int) *Announce {
	return &Announce{
		logger:         log.NewNopLogger(),
		nodeInterfaces: append([]string{}, ifaces...),
		arps:           map[int]*arpResponder{},
		ndps:           map[int]*ndpResponder{},
		ips:            map[string][]IPAdvertisement{},
		ipRefcnt:       map[string]int{},
		spamCh:         make(chan IPAdvertisement, n),
	}
}

// VerifDrainSpam empties the gratuitous-announcement queue and returns what was queued.
func (a *Announce) VerifDrainSpam() []IPAdvertisement {
	var out []IPAdvertisement
	for {
		select {
		case s := <-a.spamCh:
			out = append(out, s)
		default:
			return out
		}
	}
}

type VerifAdv struct {
	IP  string
	All bool
	Ifs []string
}

// VerifSnapshot returns service -> advertisements held by the announcer.
func (a *Announce) VerifSnapshot() map[string][]VerifAdv {
	a.RLock()
	defer a.RUnlock()
	out := map[string][]VerifAdv{}
	for svc, advs := range a.ips {
		for _, adv := range advs {
			v := VerifAdv{IP: adv.ip.String(), All: adv.allInterfaces}
			for i := range adv.interfaces {
				v.Ifs = append(v.Ifs, i)
			}
			sort.Strings(v.Ifs)
			out[svc] = append(out[svc], v)
		}
		sort.Slice(out[svc], func(i, j int) bool { return out[svc][i].IP < out[svc][j].IP })
	}
	return out
}

func (a *Announce) VerifRefcnt() map[string]int {
	a.RLock()
	defer a.RUnlock()
	out := map[string]int{}
	for k, v := range a.ipRefcnt {
		out[k] = v
	}
	return out
}

// VerifAnswers is the responder's decision for (ip, interface): true = answer.
func (a *Announce) VerifAnswers(ip net.IP, intf string) bool {
	return a.shouldAnnounce(ip, intf) == dropReasonNone
}
