//go:build verif && go1.25

package layer2

// C13, periodic announcement loop on a virtual clock.
//
// The other C13 engines replay the queue of unsolicited announcements through the real gratuitous()
// themselves; what the real spamLoop remembers between ticks (which advertisement it keeps for an
// address, for how long) is outside their reach. Here the real spamLoop goroutine runs inside a
// testing/synctest bubble: announce / re-announce (other interface set) / withdraw operations are
// interleaved with jumps of the virtual clock (fractions and multiples of the loop's 1.1 s tick, across
// its 5 s window), and synctest.Wait gives the exact point at which the loop is idle again. Every
// unsolicited frame that left through one of the in-memory interfaces since the previous operation is
// judged against the reference model at that moment (the model only changes in operations, the loop only
// runs while the harness sleeps or waits).
//
// Oracle (the property, per interface): an unsolicited announcement for an address leaves through an
// interface only while at least one announced service holds the address with an advertisement covering
// that interface; after the last such service is withdrawn (or re-announced away from the interface) no
// further one is sent there.

import (
	"fmt"
	"net"
	"runtime"
	"sort"
	"sync/atomic"
	"testing"
	"testing/synctest"
	"time"

	vw "go.universe.tf/metallb/internal/verifworld"
	"k8s.io/apimachinery/pkg/util/sets"
	"pgregory.net/rapid"
)

type c13bOp struct {
	Kind string   `json:"kind"` // announce | withdraw | sleep
	Svc  int      `json:"svc,omitempty"`
	IP   int      `json:"ip,omitempty"`
	All  bool     `json:"all,omitempty"`
	Ifs  []string `json:"ifs,omitempty"`
	Ms   int      `json:"ms,omitempty"`
}

type c13bCase struct {
	Ops []c13bOp `json:"ops"`
}

func genC13b(rt *rapid.T) c13bCase {
	var c c13bCase
	for i, n := 0, rapid.IntRange(2, 16).Draw(rt, "nops"); i < n; i++ {
		op := c13bOp{}
		switch k := rapid.IntRange(0, 9).Draw(rt, "opK"); {
		case k <= 3:
			op.Kind = "announce"
			op.Svc = rapid.IntRange(0, 2).Draw(rt, "svc")
			op.IP = rapid.IntRange(0, 1).Draw(rt, "ip")
			op.All = rapid.IntRange(0, 3).Draw(rt, "all") == 0
			if !op.All {
				for _, f := range c13Ifaces {
					if rapid.Bool().Draw(rt, "ifsel") {
						op.Ifs = append(op.Ifs, f)
					}
				}
			}
		case k <= 5:
			op.Kind = "withdraw"
			op.Svc = rapid.IntRange(0, 2).Draw(rt, "svc")
		default:
			op.Kind = "sleep"
			op.Ms = rapid.SampledFrom([]int{100, 500, 1100, 1200, 2300, 3400, 4900, 5200, 7000}).Draw(rt, "ms")
		}
		c.Ops = append(c.Ops, op)
	}
	return c
}

func runC13b(t *testing.T, c c13bCase, tr *vw.Trace) (viol *vw.Violation) {
	synctest.Test(t, func(t *testing.T) {
		w := newC13World()
		var die atomic.Bool
		for _, pc := range w.conns {
			pc.onWrite = func() {
				if die.Load() {
					runtime.Goexit() // ends the spamLoop goroutine (it has no stop channel) so that the bubble can close
				}
			}
		}
		go w.a.spamLoop()
		defer func() {
			die.Store(true)
			w.a.SetBalancer("verif/end", NewIPAdvertisement(net.ParseIP("10.0.0.99"), true, sets.New[string]()))
			synctest.Wait()
		}()

		model := map[string][]c13Adv{}
		lastSubmit := map[string]time.Time{} // address -> virtual time of the last (re-)announce
		rescoped, withdrawnInWindow, framesSeen := false, false, 0
		judge := func(i int, op c13bOp) *vw.Violation {
			names := append([]string(nil), c13Ifaces...)
			sort.Strings(names)
			for _, name := range names {
				for _, fb := range w.conns[name].take() {
					_, p, err := decodeARP(fb)
					if err != nil || p.SenderHardwareAddr.String() != c13OurMAC.String() {
						return vw.Violationf("gratuitous-malformed", "op %d (%s): a frame on %s does not decode to an announcement from our MAC: %v", i, op.Kind, name, err)
					}
					framesSeen++
					ip := p.SenderIP.String()
					held, covered := false, false
					for _, advs := range model {
						for _, a := range advs {
							if a.ip == ip {
								held = true
								if a.covers(name) {
									covered = true
								}
							}
						}
					}
					if !held {
						return vw.Violationf("gratuitous-for-withdrawn-address", "op %d (%s): unsolicited announcement for %s on %s although no announced service holds it (virtual time %s after its last announce)", i, op.Kind, ip, name, time.Since(lastSubmit[ip]))
					}
					if !covered {
						return vw.Violationf("gratuitous-on-uncovered-interface", "op %d (%s): unsolicited announcement for %s left through %s, which no advertisement of the services currently holding the address covers (virtual time %s after its last announce); announced: %v", i, op.Kind, ip, name, time.Since(lastSubmit[ip]), c13bShow(model))
					}
				}
			}
			return nil
		}
		for i, op := range c.Ops {
			svc := fmt.Sprintf("ns/svc%d", op.Svc)
			switch op.Kind {
			case "announce":
				ip := c13IPs[op.IP]
				w.a.SetBalancer(svc, NewIPAdvertisement(net.ParseIP(ip), op.All, sets.New(op.Ifs...)))
				adv := c13Adv{ip: ip, all: op.All, ifs: map[string]bool{}}
				for _, f := range op.Ifs {
					adv.ifs[f] = true
				}
				replaced := false
				for j, old := range model[svc] {
					if old.ip == ip {
						if (old.all != adv.all || fmt.Sprint(old.ifs) != fmt.Sprint(adv.ifs)) && time.Since(lastSubmit[ip]) < 5*time.Second {
							rescoped = true
							tr.Class("re-announced-with-other-interfaces-inside-the-window")
						}
						model[svc][j] = adv
						replaced = true
					}
				}
				if !replaced {
					model[svc] = append(model[svc], adv)
				}
				lastSubmit[ip] = time.Now()
			case "withdraw":
				for _, a := range model[svc] {
					if t0, ok := lastSubmit[a.ip]; ok && time.Since(t0) < 5*time.Second {
						withdrawnInWindow = true
						tr.Class("withdrawn-inside-the-window")
					}
				}
				w.a.DeleteBalancer(svc)
				delete(model, svc)
			case "sleep":
				time.Sleep(time.Duration(op.Ms) * time.Millisecond)
			}
			synctest.Wait()
			if v := judge(i, op); v != nil {
				viol = v
				return
			}
		}
		if framesSeen > 0 {
			tr.Class("unsolicited-frames-seen")
		}
		if (rescoped || withdrawnInWindow) && framesSeen > 0 {
			tr.NonTrivial()
		}
	})
	return viol
}

func c13bShow(model map[string][]c13Adv) string {
	var ks []string
	for k := range model {
		ks = append(ks, k)
	}
	sort.Strings(ks)
	s := ""
	for _, k := range ks {
		for _, a := range model[k] {
			var ifs []string
			for f := range a.ifs {
				ifs = append(ifs, f)
			}
			sort.Strings(ifs)
			if a.all {
				ifs = []string{"all"}
			}
			s += fmt.Sprintf("%s:%s%v ", k, a.ip, ifs)
		}
	}
	return s
}

func TestVerifC13SpamLoop(t *testing.T) {
	vw.Run(t, vw.Options{Property: "C13", Engine: "announcement-loop-virtual-clock",
		Rule:        "2..16 ops over 3 services, 2 IPv4 addresses, 3 in-memory interfaces against the real spamLoop goroutine on a virtual clock: announce (all interfaces or a subset), re-announce with another interface set, withdraw, advance the clock by 0.1..7 s (fractions and multiples of the 1.1 s tick, across the 5 s window); after every op, once the loop is idle, every unsolicited frame written since is judged against the model; non-trivial = a re-announce with other interfaces or a withdrawal inside the 5 s window of its address, and >=1 unsolicited frame",
		Assumptions: []string{"go1.26.8 testing/synctest; ARP only (ndp.Conn has no seam for an in-memory connection); the loop goroutine is ended by runtime.Goexit from the in-memory connection when the case is over"}},
		genC13b,
		func(c c13bCase, tr *vw.Trace) *vw.Violation { return runC13b(t, c, tr) })
}
