//go:build verif

package layer2

// C13 — the layer-2 responder answers exactly for what is announced.
// Real Announce (no goroutines), real arpResponders over an in-memory
// net.PacketConn, real processRequest / gratuitous / SetBalancer /
// DeleteBalancer; reference model: service -> [(address, interface scope)].

import (
	"errors"
	"fmt"
	"io"
	"net"
	"runtime"
	"sort"
	"sync"
	"sync/atomic"
	"testing"
	"time"

	"github.com/go-kit/log"
	"github.com/mdlayher/arp"
	"github.com/mdlayher/ethernet"
	vw "go.universe.tf/metallb/internal/verifworld"
	"k8s.io/apimachinery/pkg/util/sets"
	"pgregory.net/rapid"
)

// memConn is an in-memory net.PacketConn.
type memConn struct {
	onWrite func() // called at the start of every WriteTo (before the frame counts as sent)
	in      chan []byte
	mu      sync.Mutex
	out     [][]byte
	closed  chan struct{}
	once    sync.Once
}

type memAddr struct{}

func (memAddr) Network() string { return "mem" }
func (memAddr) String() string  { return "mem" }

func newMemConn() *memConn { return &memConn{in: make(chan []byte, 4096), closed: make(chan struct{})} }

func (c *memConn) ReadFrom(p []byte) (int, net.Addr, error) {
	select {
	case b := <-c.in:
		return copy(p, b), memAddr{}, nil
	case <-c.closed:
		return 0, nil, io.EOF
	}
}
func (c *memConn) WriteTo(p []byte, _ net.Addr) (int, error) {
	if c.onWrite != nil {
		c.onWrite()
	}
	c.mu.Lock()
	c.out = append(c.out, append([]byte(nil), p...))
	c.mu.Unlock()
	return len(p), nil
}
func (c *memConn) take() [][]byte {
	c.mu.Lock()
	defer c.mu.Unlock()
	o := c.out
	c.out = nil
	return o
}
func (c *memConn) Close() error                     { c.once.Do(func() { close(c.closed) }); return nil }
func (c *memConn) LocalAddr() net.Addr              { return memAddr{} }
func (c *memConn) SetDeadline(time.Time) error      { return nil }
func (c *memConn) SetReadDeadline(time.Time) error  { return nil }
func (c *memConn) SetWriteDeadline(time.Time) error { return nil }

var c13Ifaces = []string{"ifA", "ifB", "ifC"}

// index 0 is unused (0 = ordinary request); the rest are opcodes of the ARP family that are not requests
var c13Opcodes = []arp.Operation{1, 3, 4, 8, 9, 0, 65535, 256}
var c13IPs = []string{"10.0.0.1", "10.0.0.2", "10.0.0.3", "fc00::1"}
var c13OurMAC = net.HardwareAddr{0x02, 0, 0, 0, 0, 0x01}
var c13PeerMAC = net.HardwareAddr{0x02, 0, 0, 0, 0, 0xaa}
var c13OtherMAC = net.HardwareAddr{0x02, 0, 0, 0, 0, 0xbb}

type c13World struct {
	a     *Announce
	resp  map[string]*arpResponder
	conns map[string]*memConn
}

func newC13World() *c13World {
	w := &c13World{a: VerifNewAnnounceN(c13Ifaces, 4096), resp: map[string]*arpResponder{}, conns: map[string]*memConn{}}
	for i, name := range c13Ifaces {
		pc := newMemConn()
		ifi := net.Interface{Index: 1, Name: "lo", HardwareAddr: c13OurMAC} // Addrs() of the loopback gives the IPv4 address arp.New wants
		cl, err := arp.New(&ifi, pc)
		if err != nil {
			panic(err)
		}
		r := &arpResponder{logger: log.NewNopLogger(), intf: name, hardwareAddr: c13OurMAC, conn: cl, closed: make(chan struct{}), announce: w.a.shouldAnnounce}
		w.resp[name], w.conns[name] = r, pc
		w.a.arps[i+1] = r
	}
	return w
}

type c13Op struct {
	Kind   string   `json:"kind"` // announce | withdraw | packet | spam
	Svc    int      `json:"svc,omitempty"`
	IP     int      `json:"ip,omitempty"`
	All    bool     `json:"all,omitempty"`
	Ifs    []string `json:"ifs,omitempty"`
	If     int      `json:"if,omitempty"`
	Reply  bool     `json:"reply,omitempty"`  // packet is an ARP reply instead of a request
	Opcode int      `json:"opcode,omitempty"` // packet: index into c13Opcodes when neither 0 (request) nor Reply: other ARP-family opcodes (RARP, InARP, 0, 65535)
	Dst    int      `json:"dst,omitempty"`    // 0 own MAC, 1 broadcast, 2 other unicast MAC, 3..5 multicast MACs that are not the broadcast address
	Target int      `json:"target,omitempty"`
}

type c13Case struct {
	Ops []c13Op `json:"ops"`
}

func genC13(rt *rapid.T) c13Case {
	var c c13Case
	for i, n := 0, rapid.IntRange(1, 40).Draw(rt, "nops"); i < n; i++ {
		op := c13Op{}
		switch k := rapid.IntRange(0, 9).Draw(rt, "opK"); {
		case k <= 2:
			op.Kind = "announce"
			op.Svc = rapid.IntRange(0, 3).Draw(rt, "svc")
			op.IP = rapid.IntRange(0, len(c13IPs)-1).Draw(rt, "ip")
			op.All = rapid.IntRange(0, 2).Draw(rt, "all") == 0
			if !op.All {
				for _, f := range c13Ifaces {
					if rapid.Bool().Draw(rt, "ifsel") {
						op.Ifs = append(op.Ifs, f)
					}
				}
			}
		case k == 3:
			op.Kind = "withdraw"
			op.Svc = rapid.IntRange(0, 3).Draw(rt, "svc")
		case k == 4:
			op.Kind = "spam"
		default:
			op.Kind = "packet"
			op.If = rapid.IntRange(0, len(c13Ifaces)-1).Draw(rt, "if")
			op.Reply = rapid.IntRange(0, 4).Draw(rt, "reply") == 0
			if !op.Reply && rapid.IntRange(0, 5).Draw(rt, "oddOpcode") == 0 {
				op.Opcode = rapid.IntRange(1, len(c13Opcodes)-1).Draw(rt, "opcode")
			}
			op.Dst = rapid.SampledFrom([]int{0, 1, 1, 2, 3, 4, 5}).Draw(rt, "dst")
			op.Target = rapid.IntRange(0, 2).Draw(rt, "target")
		}
		c.Ops = append(c.Ops, op)
	}
	return c
}

type c13Adv struct {
	ip  string
	all bool
	ifs map[string]bool
}

func (a c13Adv) covers(f string) bool { return a.all || a.ifs[f] }

func arpFrame(op arp.Operation, dst net.HardwareAddr, target string) []byte {
	p, err := arp.NewPacket(op, c13PeerMAC, net.ParseIP("10.0.0.200").To4(), ethernet.Broadcast, net.ParseIP(target).To4())
	if err != nil {
		panic(err)
	}
	pb, _ := p.MarshalBinary()
	f := &ethernet.Frame{Destination: dst, Source: c13PeerMAC, EtherType: ethernet.EtherTypeARP, Payload: pb}
	fb, _ := f.MarshalBinary()
	return fb
}

func decodeARP(b []byte) (*ethernet.Frame, *arp.Packet, error) {
	f := new(ethernet.Frame)
	if err := f.UnmarshalBinary(b); err != nil {
		return nil, nil, err
	}
	p := new(arp.Packet)
	if err := p.UnmarshalBinary(f.Payload); err != nil {
		return nil, nil, err
	}
	return f, p, nil
}

func runC13(c c13Case, tr *vw.Trace) *vw.Violation {
	w := newC13World()
	model := map[string][]c13Adv{}
	refs := func() map[string]int {
		m := map[string]int{}
		for _, advs := range model {
			for _, a := range advs {
				m[a.ip]++
			}
		}
		return m
	}
	withdrew, shared := false, false
	for i, op := range c.Ops {
		svc := fmt.Sprintf("ns/svc%d", op.Svc)
		switch op.Kind {
		case "announce":
			ip := c13IPs[op.IP]
			ifs := sets.New(op.Ifs...)
			w.a.SetBalancer(svc, NewIPAdvertisement(net.ParseIP(ip), op.All, ifs))
			adv := c13Adv{ip: ip, all: op.All, ifs: map[string]bool{}}
			for _, f := range op.Ifs {
				adv.ifs[f] = true
			}
			replaced := false
			for j := range model[svc] {
				if model[svc][j].ip == ip {
					model[svc][j] = adv
					replaced = true
					tr.Class("re-announce")
				}
			}
			if !replaced {
				model[svc] = append(model[svc], adv)
			}
			if refs()[ip] >= 2 {
				shared = true
				tr.Class("address-shared")
			}
		case "withdraw":
			if _, ok := model[svc]; ok {
				withdrew = true
				tr.Class("withdraw")
			}
			w.a.DeleteBalancer(svc)
			delete(model, svc)
		case "spam":
			// replay the periodic announcement loop: every queued advertisement goes through the real gratuitous()
			for _, adv := range w.a.VerifDrainSpam() {
				for _, pc := range w.conns {
					pc.take()
				}
				w.a.gratuitous(adv)
				held := refs()[adv.ip.String()] > 0
				for name, pc := range w.conns {
					frames := pc.take()
					if len(frames) == 0 {
						continue
					}
					if !held {
						return vw.Violationf("gratuitous-for-withdrawn-address", "op %d: unsolicited announcement for %s on %s although no announced service holds it", i, adv.ip, name)
					}
					if adv.ip.To4() == nil {
						return vw.Violationf("gratuitous-arp-for-ipv6", "op %d: ARP announcement for IPv6 address %s", i, adv.ip)
					}
					covered := false
					for _, advs := range model {
						for _, a := range advs {
							if a.ip == adv.ip.String() && a.covers(name) {
								covered = true
							}
						}
					}
					if !covered {
						return vw.Violationf("gratuitous-on-uncovered-interface", "op %d: unsolicited announcement for %s on %s, which no advertisement of the services currently holding the address covers; announced: %v", i, adv.ip, name, model)
					}
					for _, fb := range frames {
						_, p, err := decodeARP(fb)
						if err != nil || !p.SenderIP.Equal(adv.ip) || p.SenderHardwareAddr.String() != c13OurMAC.String() {
							return vw.Violationf("gratuitous-malformed", "op %d: gratuitous frame for %s does not decode to (our MAC, the address): %v", i, adv.ip, err)
						}
					}
					tr.Class("gratuitous-sent")
				}
			}
		case "packet":
			name := c13Ifaces[op.If]
			target := c13IPs[op.Target]
			dst := []net.HardwareAddr{c13OurMAC, ethernet.Broadcast, c13OtherMAC, {0x01, 0x00, 0x5e, 0, 0, 1}, {0x33, 0x33, 0, 0, 0, 1}, {0xff, 0xff, 0xff, 0xff, 0xff, 0xfe}}[op.Dst]
			aop := arp.OperationRequest
			if op.Reply {
				aop = arp.OperationReply
			} else if op.Opcode > 0 {
				aop = c13Opcodes[op.Opcode%len(c13Opcodes)]
				tr.Class("packet-with-other-arp-opcode")
			}
			pc := w.conns[name]
			pc.take()
			pc.in <- arpFrame(aop, dst, target)
			reason := w.resp[name].processRequest()
			frames := pc.take()
			want := false
			if aop == arp.OperationRequest && op.Dst <= 1 {
				for _, advs := range model {
					for _, a := range advs {
						if a.ip == target && a.covers(name) {
							want = true
						}
					}
				}
			}
			if want {
				tr.Class("answered")
			} else {
				tr.Class("ignored")
			}
			if (len(frames) > 0) != want || (reason == dropReasonNone) != want {
				return vw.Violationf("arp-answer-mismatch", "op %d: %s for %s on %s to %s: answered=%v (drop reason %d), expected answered=%v; announced: %v", i, aop, target, name, dst, len(frames) > 0, reason, want, model)
			}
			if want {
				if len(frames) != 1 {
					return vw.Violationf("arp-answer-count", "op %d: %d frames for one request", i, len(frames))
				}
				f, p, err := decodeARP(frames[0])
				if err != nil || p.Operation != arp.OperationReply || !p.SenderIP.Equal(net.ParseIP(target)) || p.SenderHardwareAddr.String() != c13OurMAC.String() || f.Destination.String() != c13PeerMAC.String() {
					return vw.Violationf("arp-answer-content", "op %d: reply for %s does not carry (our MAC, target address) to the requester: %v %+v", i, target, err, p)
				}
			}
		}
		// reference counts
		got := w.a.VerifRefcnt()
		want := refs()
		for ip, n := range got {
			if n < 0 {
				return vw.Violationf("negative-refcount", "op %d (%s): reference count of %s is %d", i, op.Kind, ip, n)
			}
			if n != want[ip] {
				return vw.Violationf("refcount-mismatch", "op %d (%s): reference count of %s is %d, %d announced service(s) hold it", i, op.Kind, ip, n, want[ip])
			}
		}
		for ip, n := range want {
			if got[ip] != n {
				return vw.Violationf("refcount-mismatch", "op %d (%s): reference count of %s is %d, %d announced service(s) hold it", i, op.Kind, ip, got[ip], n)
			}
		}
	}
	if withdrew && shared {
		tr.NonTrivial()
	}
	return nil
}

func TestVerifC13Histories(t *testing.T) {
	vw.Run(t, vw.Options{Property: "C13", Engine: "histories",
		Rule:        "1..40 ops over 4 services, 4 addresses (3 v4, 1 v6), 3 interfaces: announce (all interfaces or a subset), re-announce with another interface set, withdraw, ARP packet in (request/reply x destination own MAC/broadcast/other MAC x target x interface), replay of the queued unsolicited announcements through the real gratuitous(); non-trivial = some address was held by >=2 services and a withdraw happened",
		Assumptions: []string{"only the ARP packet path is reached: ndp.Conn needs a raw ICMPv6 socket and has no seam for an in-memory connection (the NDP responder shares shouldAnnounce and the reference counting, which are covered)"}},
		genC13, runC13)
}

// ---- concurrent engine (built with -race) ----------------------------------------------

type c13ConcCase struct {
	Toggles   int        `json:"toggles"`
	Requests  int        `json:"requests"`
	Requester int        `json:"requesters"`
	Scopes    [][]string `json:"scopes"` // interface sets service B cycles through ([] = all interfaces)
	Procs     int        `json:"gomaxprocs"`
}

func genC13Conc(rt *rapid.T) c13ConcCase {
	c := c13ConcCase{Toggles: rapid.IntRange(20, 200).Draw(rt, "toggles"), Requests: rapid.IntRange(20, 200).Draw(rt, "requests"), Requester: rapid.IntRange(1, 4).Draw(rt, "requesters"), Procs: rapid.SampledFrom([]int{2, 4, 16}).Draw(rt, "procs")}
	for i, n := 0, rapid.IntRange(1, 3).Draw(rt, "nscopes"); i < n; i++ {
		c.Scopes = append(c.Scopes, rapid.SampledFrom([][]string{{}, {"ifA"}, {"ifB"}, {"ifB", "ifC"}}).Draw(rt, "scope"))
	}
	return c
}

var errWatchdog = errors.New("watchdog")

func runC13Conc(c c13ConcCase, tr *vw.Trace) *vw.Violation {
	w := newC13World()
	const X, Y = "10.0.0.1", "10.0.0.3"
	// the stable co-tenant A announces X on ifA
	w.a.SetBalancer("ns/A", NewIPAdvertisement(net.ParseIP(X), false, sets.New("ifA")))
	ra := w.resp["ifA"]
	go ra.run()
	defer ra.Close()
	var sentX, sentY int64
	var wg sync.WaitGroup
	stop := make(chan struct{})
	// updater: toggles and re-scopes service B on the same address, and drains/replays the spam queue
	wg.Add(1)
	go func() {
		defer wg.Done()
		for i := 0; i < c.Toggles; i++ {
			sc := c.Scopes[i%len(c.Scopes)]
			w.a.SetBalancer("ns/B", NewIPAdvertisement(net.ParseIP(X), len(sc) == 0, sets.New(sc...)))
			for _, adv := range w.a.VerifDrainSpam() {
				w.a.gratuitous(adv)
			}
			if i%2 == 1 {
				w.a.DeleteBalancer("ns/B")
			}
			_ = w.a.GetStatus
		}
	}()
	for r := 0; r < c.Requester; r++ {
		wg.Add(1)
		go func() {
			defer wg.Done()
			for i := 0; i < c.Requests; i++ {
				select {
				case <-stop:
					return
				default:
				}
				if i%3 == 2 {
					w.conns["ifA"].in <- arpFrame(arp.OperationRequest, ethernet.Broadcast, Y)
					atomic.AddInt64(&sentY, 1)
				} else {
					w.conns["ifA"].in <- arpFrame(arp.OperationRequest, c13OurMAC, X)
					atomic.AddInt64(&sentX, 1)
				}
			}
		}()
	}
	done := make(chan struct{})
	go func() { wg.Wait(); close(done) }()
	select {
	case <-done:
	case <-time.After(60 * time.Second):
		close(stop)
		panic(errWatchdog)
	}
	// wait until the responder consumed everything
	deadline := time.Now().Add(30 * time.Second)
	for len(w.conns["ifA"].in) > 0 {
		if time.Now().After(deadline) {
			panic(errWatchdog)
		}
		time.Sleep(time.Millisecond)
	}
	// ... and has written the reply to the request it took last: an empty queue only says the request was read. The
	// responder gets up to 30 s for it (a machine busy with other checks), a reply still missing then is reported
	quiet := func() int {
		w.conns["ifA"].mu.Lock()
		defer w.conns["ifA"].mu.Unlock()
		n := 0
		for _, fb := range w.conns["ifA"].out {
			if f, p, err := decodeARP(fb); err == nil && f.Destination.String() != ethernet.Broadcast.String() && p.SenderIP.Equal(net.ParseIP(X)) {
				n++
			}
		}
		return n
	}
	for int64(quiet()) < atomic.LoadInt64(&sentX) && time.Now().Before(deadline) {
		time.Sleep(time.Millisecond)
	}
	time.Sleep(2 * time.Millisecond)
	var repliesX, repliesY, gratuitous int
	for _, fb := range w.conns["ifA"].take() {
		f, p, err := decodeARP(fb)
		if err != nil {
			return vw.Violationf("concurrent-malformed-frame", "%v", err)
		}
		if f.Destination.String() == ethernet.Broadcast.String() {
			gratuitous++
			continue
		}
		switch {
		case p.SenderIP.Equal(net.ParseIP(X)):
			repliesX++
		case p.SenderIP.Equal(net.ParseIP(Y)):
			repliesY++
		}
	}
	tr.NonTrivial()
	if gratuitous > 0 {
		tr.Class("gratuitous-interleaved")
	}
	if int64(repliesX) != atomic.LoadInt64(&sentX) {
		return vw.Violationf("concurrent-request-unanswered", "%d requests for %s on ifA (held by the stable service A throughout), %d replies while service B was toggled concurrently", sentX, X, repliesX)
	}
	if repliesY != 0 {
		return vw.Violationf("concurrent-answer-for-unannounced", "%d replies for the never announced %s", repliesY, Y)
	}
	refs := w.a.VerifRefcnt()
	if refs[X] != 1 && refs[X] != 2 {
		return vw.Violationf("concurrent-refcount", "reference count of %s is %d after the run", X, refs[X])
	}
	return nil
}

func TestVerifC13Concurrent(t *testing.T) {
	vw.Run(t, vw.Options{Property: "C13", Engine: "concurrent",
		Rule:        "1..4 requester goroutines send 20..200 ARP requests each for the address X held by a stable service on ifA (and for a never announced Y) into the real responder loop while an updater goroutine announces / re-scopes / withdraws a second service on X and replays the unsolicited-announcement queue; every request for X must be answered, none for Y; run under the race detector; every run counts as non-trivial",
		Assumptions: []string{"interleavings are produced by the Go scheduler (GOMAXPROCS as in the process), not enumerated; the race detector generalises each run to executions with the same happens-before graph"}},
		genC13Conc, runC13Conc)
}

// ---- withdrawal placed inside an unsolicited announcement ---------------------------------
//
// The periodic loop calls gratuitous() for an address; the harness owns the schedule: when the k-th
// frame of that call is about to be written, the withdrawal of the holders starts on another goroutine
// and the writer waits until the withdrawal has either completed or is blocked on the announcer's lock.
// Oracle: once the withdrawal of the last holder has returned, no further unsolicited frame is written.

type c13gHolder struct {
	All bool     `json:"all,omitempty"`
	Ifs []string `json:"ifs,omitempty"`
}

type c13gCase struct {
	Holders  []c13gHolder `json:"holders"`  // services ns/svc0.. announcing 10.0.0.1
	Spam     int          `json:"spam"`     // whose advertisement the loop replays
	K        int          `json:"k"`        // the withdrawal starts when the k-th frame is about to be written
	Withdraw []bool       `json:"withdraw"` // which holders are withdrawn
}

func genC13G(rt *rapid.T) c13gCase {
	var c c13gCase
	n := rapid.IntRange(1, 3).Draw(rt, "nholders")
	for i := 0; i < n; i++ {
		h := c13gHolder{All: rapid.IntRange(0, 1).Draw(rt, "all") == 0}
		if !h.All {
			for _, f := range c13Ifaces {
				if rapid.IntRange(0, 3).Draw(rt, "ifsel") != 0 {
					h.Ifs = append(h.Ifs, f)
				}
			}
		}
		c.Holders = append(c.Holders, h)
		c.Withdraw = append(c.Withdraw, rapid.IntRange(0, 3).Draw(rt, "withdraw") != 0)
	}
	c.Spam = rapid.IntRange(0, n-1).Draw(rt, "spam")
	c.K = rapid.IntRange(1, 6).Draw(rt, "k")
	return c
}

func runC13G(c c13gCase, tr *vw.Trace) *vw.Violation {
	w := newC13World()
	ip := net.ParseIP("10.0.0.1")
	var advs []IPAdvertisement
	for i, h := range c.Holders {
		adv := NewIPAdvertisement(ip, h.All, sets.New(h.Ifs...))
		advs = append(advs, adv)
		w.a.SetBalancer(fmt.Sprintf("ns/svc%d", i), adv)
	}
	w.a.VerifDrainSpam()
	all := true
	for i := range c.Holders {
		if !c.Withdraw[i] {
			all = false
		}
	}
	var frames, late, done, started int32
	finished := make(chan struct{})
	hook := func() {
		n := atomic.AddInt32(&frames, 1)
		if atomic.LoadInt32(&done) == 1 && all {
			atomic.AddInt32(&late, 1)
		}
		if int(n) != c.K || !atomic.CompareAndSwapInt32(&started, 0, 1) {
			return
		}
		go func() {
			for i := range c.Holders {
				if c.Withdraw[i] {
					w.a.DeleteBalancer(fmt.Sprintf("ns/svc%d", i))
				}
			}
			atomic.StoreInt32(&done, 1)
			close(finished)
		}()
		// wait until the withdrawal has completed, or is parked on the announcer's lock (a waiting writer makes TryRLock fail)
		for i := 0; atomic.LoadInt32(&done) == 0; i++ {
			if !w.a.TryRLock() {
				for j := 0; j < 2000 && atomic.LoadInt32(&done) == 0; j++ {
					runtime.Gosched()
				}
				break
			}
			w.a.RUnlock()
			runtime.Gosched()
		}
	}
	for _, pc := range w.conns {
		pc.onWrite = hook
	}
	w.a.gratuitous(advs[c.Spam%len(advs)])
	if atomic.LoadInt32(&started) == 0 {
		tr.Class("announcement-shorter-than-k-frames")
		return nil
	}
	<-finished
	tr.Class("withdrawal-inside-unsolicited-announcement")
	if all {
		tr.Class("last-holder-withdrawn")
		tr.NonTrivial()
		if l := atomic.LoadInt32(&late); l > 0 {
			return vw.Violationf("unsolicited-after-withdrawal", "%d unsolicited frame(s) for %s were written after the withdrawal of its last holder had returned (withdrawal started at frame %d of %d)", l, ip, c.K, atomic.LoadInt32(&frames))
		}
		before := atomic.LoadInt32(&frames)
		w.a.gratuitous(advs[c.Spam%len(advs)])
		if atomic.LoadInt32(&frames) != before {
			return vw.Violationf("gratuitous-for-withdrawn-address", "the next round of the announcement loop still sends %d frame(s) for %s", atomic.LoadInt32(&frames)-before, ip)
		}
	}
	return nil
}

func TestVerifC13WithdrawInside(t *testing.T) {
	vw.Run(t, vw.Options{Property: "C13", Engine: "withdraw-inside-announcement",
		Rule:        "1..3 services hold one address with generated interface sets; the real gratuitous() replays one of the advertisements and, when its k-th frame (k in 1..6) is about to be written, a chosen subset of the holders is withdrawn on another goroutine while the writer waits for the withdrawal to complete or to park on the announcer's lock; once the withdrawal of the last holder has returned no further frame may be written; non-trivial = all holders withdrawn inside the announcement",
		Assumptions: []string{"the harness decides where in the frame sequence the withdrawal starts; whether the withdrawal then overtakes the writer is up to the code under test's locking"}},
		genC13G, runC13G)
}

var _ = sort.Strings
