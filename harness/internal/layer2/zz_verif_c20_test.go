//go:build verif

package layer2

// C20 (layer-2 announcer): bursts of (re-)announcements against the real periodic announcement
// loop (spamLoop with its 1024-entry queue), with concurrent status queries: the handler side must
// never block for good. Real time: the loop's tick period is 1.1 s, so a run lasts ~1.5 s.

import (
	"fmt"
	"net"
	"sync/atomic"
	"testing"
	"time"

	vw "go.universe.tf/metallb/internal/verifworld"
	"k8s.io/apimachinery/pkg/types"
	"k8s.io/apimachinery/pkg/util/sets"
	"pgregory.net/rapid"
)

type c20BurstCase struct {
	Services int `json:"services"`
	Millis   int `json:"millis"`
	Readers  int `json:"readers"`
}

func TestVerifC20Layer2Burst(t *testing.T) {
	vw.Run(t, vw.Options{Property: "C20", Engine: "layer2-burst",
		Rule:        "1100..4000 services are announced and re-announced in a loop for 1.3..1.8 s (longer than one tick of the periodic announcement loop, more entries than its queue holds) against the real spamLoop goroutine (two of them share one address with different interface lists) while 1..2 goroutines query status and the answer decision; the announcing side must finish (watchdog 15 s) and what is stored for the two sharers must be what they were announced with; every run counts as non-trivial",
		Assumptions: []string{"real time; a watchdog of 15 s (normal completion: the configured duration) decides 'blocked for good'"}},
		func(rt *rapid.T) c20BurstCase {
			return c20BurstCase{Services: rapid.IntRange(1100, 4000).Draw(rt, "services"), Millis: rapid.IntRange(1300, 1800).Draw(rt, "millis"), Readers: rapid.IntRange(1, 2).Draw(rt, "readers")}
		},
		func(c c20BurstCase, tr *vw.Trace) *vw.Violation {
			a := VerifNewAnnounce([]string{"ifA", "ifB"})
			shared := net.IPv4(10, 200, 0, 1)
			a.spamCh = make(chan IPAdvertisement, 1024) // as New()
			go a.spamLoop()
			tr.NonTrivial()
			deadline := time.Now().Add(time.Duration(c.Millis) * time.Millisecond)
			var announced, queries int64
			done := make(chan struct{})
			stop := make(chan struct{})
			go func() {
				defer close(done)
				// two services share one address with different interface lists, announced once: the periodic loop merges
				// their interfaces for its announcements and must not touch what is stored for either of them
				a.SetBalancer("ns/shareA", NewIPAdvertisement(shared, false, sets.New("ifA")))
				a.SetBalancer("ns/shareB", NewIPAdvertisement(shared, false, sets.New("ifB")))
				for time.Now().Before(deadline) {
					for i := 0; i < c.Services; i++ {
						ip := net.IPv4(10, byte(i>>16), byte(i>>8), byte(i))
						a.SetBalancer(fmt.Sprintf("ns/svc%d", i), NewIPAdvertisement(ip, i%2 == 0, sets.New("ifA")))
						atomic.AddInt64(&announced, 1)
					}
				}
			}()
			for r := 0; r < c.Readers; r++ {
				go func() {
					for {
						select {
						case <-stop:
							return
						default:
						}
						_ = a.GetStatus(types.NamespacedName{Namespace: "ns", Name: "svc1"})
						for _, adv := range a.GetStatus(types.NamespacedName{Namespace: "ns", Name: "shareA"}) {
							for range adv.GetInterfaces() { // as the layer-2 status reconciler does, after the lock is released
							}
						}
						_ = a.shouldAnnounce(shared, "ifB")
						_ = a.shouldAnnounce(net.IPv4(10, 0, 0, 1), "ifA")
						atomic.AddInt64(&queries, 1)
						time.Sleep(50 * time.Microsecond)
					}
				}()
			}
			select {
			case <-done:
			case <-time.After(time.Duration(c.Millis)*time.Millisecond + 15*time.Second):
				close(stop)
				return vw.Violationf("announcer-blocked", "the announcing handler is still blocked 15 s after its %d ms burst should have ended (%d announcements made, queue %d/%d, %d status queries answered)", c.Millis, atomic.LoadInt64(&announced), len(a.spamCh), cap(a.spamCh), atomic.LoadInt64(&queries))
			}
			close(stop)
			// drain what the loop has not consumed, so the goroutine parks on an empty queue
			for len(a.spamCh) > 0 {
				time.Sleep(time.Millisecond)
			}
			// no event changed what the two sharers advertise: after one more tick of the loop the announcer must still
			// hold exactly what it was given
			time.Sleep(1200 * time.Millisecond)
			snap := a.VerifSnapshot()
			for svc, want := range map[string]string{"ns/shareA": "ifA", "ns/shareB": "ifB"} {
				if got := snap[svc]; len(got) != 1 || got[0].All || len(got[0].Ifs) != 1 || got[0].Ifs[0] != want {
					return vw.Violationf("stored-advertisement-changed-without-an-event", "%s was announced on [%s] only and never re-announced otherwise, the announcer now holds %+v for it", svc, want, got)
				}
			}
			return nil
		})
}
