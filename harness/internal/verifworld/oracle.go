package verifworld

// Specification-level predicates computed from the plain-data CR descriptions
// (never from config.Pool / allocator state): pool admission, sharing rules,
// admissible-assignment search and usable-address counting.

import (
	"math"
	"math/big"
	"net/netip"
	"sort"
)

// Holder is what the system has recorded for one service: its addresses and the
// sharing-relevant attributes it had when the addresses were recorded.
type Holder struct {
	Key      string
	IPs      []netip.Addr
	Pool     string
	Ports    []PortSpec
	Sharing  string
	Local    bool
	Selector map[string]string
}

func HolderOf(s SvcSpec, ips []netip.Addr, pool string) Holder {
	return Holder{Key: s.Key(), IPs: ips, Pool: pool, Ports: append([]PortSpec(nil), s.Ports...), Sharing: s.Sharing, Local: s.Local, Selector: copyLabels(s.Selector)}
}

func sameLabels(a, b map[string]string) bool {
	if len(a) != len(b) {
		return false
	}
	for k, v := range a {
		if w, ok := b[k]; !ok || w != v {
			return false
		}
	}
	return true
}

func portsDisjoint(a, b []PortSpec) bool {
	for _, x := range a {
		for _, y := range b {
			if x == y {
				return false
			}
		}
	}
	return true
}

// MaySharePermissive is C01's rule read as liberally as the statement allows:
// same non-empty key, disjoint ports, both Cluster or identical selectors.
func MaySharePermissive(a, b Holder) bool {
	if a.Sharing == "" || a.Sharing != b.Sharing {
		return false
	}
	if !portsDisjoint(a.Ports, b.Ports) {
		return false
	}
	if !a.Local && !b.Local {
		return true
	}
	return sameLabels(a.Selector, b.Selector)
}

// MayShareStrict is the reading under which sharing is certainly permitted
// (used where the oracle needs "this address is available to the service"):
// both Cluster, or both Local with identical selectors.
func MayShareStrict(a, b Holder) bool {
	if a.Sharing == "" || a.Sharing != b.Sharing {
		return false
	}
	if !portsDisjoint(a.Ports, b.Ports) {
		return false
	}
	if !a.Local && !b.Local {
		return true
	}
	return a.Local && b.Local && sameLabels(a.Selector, b.Selector)
}

// Admits says whether the pool's serviceAllocation lets the service use it.
func (c ClusterSpec) Admits(p PoolSpec, s SvcSpec) bool {
	if p.Alloc == nil {
		return true
	}
	a := p.Alloc
	if len(a.Namespaces) > 0 || len(a.NsSel) > 0 {
		ok := false
		for _, n := range a.Namespaces {
			if n == s.NS {
				ok = true
			}
		}
		if ns := c.Namespace(s.NS); ns != nil {
			for _, sel := range a.NsSel {
				if sel.Matches(ns.Labels) {
					ok = true
				}
			}
		}
		if !ok {
			return false
		}
	}
	if len(a.SvcSel) > 0 {
		ok := false
		for _, sel := range a.SvcSel {
			if sel.Matches(s.Labels) {
				ok = true
			}
		}
		if !ok {
			return false
		}
	}
	return true
}

// NsSelMatchesNothing: the pool restricts namespaces only through selectors and
// none of them matches any namespace (the shape of known finding C02-nssel-empty).
func (c ClusterSpec) NsSelMatchesNothing(p PoolSpec) bool {
	if p.Alloc == nil || len(p.Alloc.Namespaces) > 0 || len(p.Alloc.NsSel) == 0 {
		return false
	}
	for _, ns := range c.Namespaces {
		for _, sel := range p.Alloc.NsSel {
			if sel.Matches(ns.Labels) {
				return false
			}
		}
	}
	return true
}

// Pinned: the pool carries a serviceAllocation block.
func (p PoolSpec) Pinned() bool { return p.Alloc != nil }

// Rank orders pinned pools: smaller positive priority first, 0 last.
func (p PoolSpec) Rank() int {
	if p.Alloc == nil || p.Alloc.Priority <= 0 {
		return math.MaxInt32
	}
	return p.Alloc.Priority
}

// PoolOf returns the pool whose usable address set contains every address (nil if none / not all in one).
func (c ClusterSpec) PoolOf(ips []netip.Addr) *PoolSpec {
	for i := range c.Pools {
		all := len(ips) > 0
		for _, a := range ips {
			if !c.Pools[i].Contains(a) {
				all = false
			}
		}
		if all {
			return &c.Pools[i]
		}
	}
	return nil
}

// Holders indexes who holds which address.
type Holders map[string]Holder

func (h Holders) On(a netip.Addr, except string) []Holder {
	var out []Holder
	keys := make([]string, 0, len(h))
	for k := range h {
		keys = append(keys, k)
	}
	sort.Strings(keys)
	for _, k := range keys {
		if k == except {
			continue
		}
		for _, ip := range h[k].IPs {
			if ip == a {
				out = append(out, h[k])
			}
		}
	}
	return out
}

// Available: address a is free, or every other holder certainly may share it with cand.
func (h Holders) Available(a netip.Addr, cand Holder) bool {
	for _, o := range h.On(a, cand.Key) {
		if !MayShareStrict(o, cand) {
			return false
		}
	}
	return true
}

// Supply returns the first available address of each family in pool p for cand
// (invalid Addr = none). Pools of the tiny universe are enumerable.
func (h Holders) Supply(p PoolSpec, cand Holder) (v4, v6 netip.Addr) {
	for _, a := range p.Enumerate(4096) {
		if a.Is4() && v4.IsValid() || !a.Is4() && v6.IsValid() {
			continue
		}
		if h.Available(a, cand) {
			if a.Is4() {
				v4 = a
			} else {
				v6 = a
			}
		}
		if v4.IsValid() && v6.IsValid() {
			break
		}
	}
	return
}

// Need describes the address families a service must / may receive.
type Need struct {
	V4, V6 bool // families of the cluster IPs
	Prefer bool // dual and PreferDualStack: one family is acceptable
}

func (s SvcSpec) Need() Need {
	n := Need{}
	for _, f := range s.Families {
		if f == FamilyV4 {
			n.V4 = true
		} else {
			n.V6 = true
		}
	}
	n.Prefer = n.V4 && n.V6 && s.Policy == PolicyPrefer
	return n
}

func (n Need) Dual() bool { return n.V4 && n.V6 }

// Satisfiable: can pool p give cand what it needs (fully; for Prefer also partially)?
func (h Holders) Satisfiable(p PoolSpec, cand Holder, n Need) (full, partial bool) {
	v4, v6 := h.Supply(p, cand)
	switch {
	case n.Dual():
		full = v4.IsValid() && v6.IsValid()
		partial = n.Prefer && (v4.IsValid() || v6.IsValid())
	case n.V4:
		full = v4.IsValid()
	case n.V6:
		full = v6.IsValid()
	}
	return
}

// UsableCount counts the usable addresses of a pool per family (exact, big).
func (p PoolSpec) UsableCount() (v4, v6 *big.Int) {
	v4, v6 = new(big.Int), new(big.Int)
	ivs, ok := p.Intervals()
	if !ok {
		return
	}
	for _, iv := range Normalize(ivs) {
		lo := new(big.Int).SetBytes(iv.Lo.AsSlice())
		hi := new(big.Int).SetBytes(iv.Hi.AsSlice())
		n := new(big.Int).Sub(hi, lo)
		n.Add(n, big.NewInt(1))
		if iv.V4() {
			if p.AvoidBuggy {
				l, h := lo.Int64(), hi.Int64()
				// #x in [0,upto] with x%256 == r
				cnt := func(upto int64, r int64) int64 {
					if upto < r {
						return 0
					}
					return (upto-r)/256 + 1
				}
				b := cnt(h, 0) - cnt(l-1, 0) + cnt(h, 255) - cnt(l-1, 255)
				n.Sub(n, big.NewInt(b))
			}
			v4.Add(v4, n)
		} else {
			v6.Add(v6, n)
		}
	}
	return
}
