package verifworld

import (
	"fmt"
	"strings"

	"pgregory.net/rapid"
)

// the same port number appears under two protocols: (protocol, port) pairs, not numbers, are what two sharers must keep disjoint
var portAlphabet = []PortSpec{{"TCP", 80}, {"TCP", 443}, {"UDP", 53}, {"TCP", 53}, {"UDP", 80}}

func GenPorts(rt *rapid.T) []PortSpec {
	n := rapid.SampledFrom([]int{1, 1, 1, 2, 2, 3}).Draw(rt, "nports")
	perm := rapid.Permutation(portAlphabet).Draw(rt, "ports")
	return append([]PortSpec(nil), perm[:n]...)
}

// OtherPorts returns the ports of the alphabet that are not in used (all of them if none is left).
func OtherPorts(used []PortSpec) []PortSpec {
	var out []PortSpec
	for _, p := range portAlphabet {
		taken := false
		for _, u := range used {
			if u == p {
				taken = true
			}
		}
		if !taken {
			out = append(out, p)
		}
	}
	if len(out) == 0 {
		return append([]PortSpec(nil), portAlphabet...)
	}
	if len(out) > 2 {
		out = out[:2]
	}
	return out
}

func GenSelector(rt *rapid.T) map[string]string {
	// few distinct selectors, so that Local-policy services often have identical ones (and may share an address);
	// one of them has several labels (whatever is derived from a selector must not depend on map order)
	switch rapid.IntRange(0, 7).Draw(rt, "selK") {
	case 0:
		return nil
	case 1, 2, 3:
		return map[string]string{"app": "a"}
	case 4, 5:
		return map[string]string{"app": "a", "tier": "web", "zone": "z1", "rel": "stable"}
	default:
		return map[string]string{"app": "b"}
	}
}

func GenFamilies(rt *rapid.T, s *SvcSpec) {
	switch rapid.IntRange(0, 19).Draw(rt, "famK") {
	case 0, 1, 2, 3, 4, 5, 6, 7, 8:
		s.Families = []int{FamilyV4}
	case 9, 10, 11, 12:
		s.Families = []int{FamilyV6}
	case 13, 14, 15, 16, 17:
		s.Families = []int{FamilyV4, FamilyV6}
	default:
		s.Families = []int{FamilyV6, FamilyV4}
	}
	if len(s.Families) == 2 {
		s.Policy = rapid.SampledFrom([]int{PolicyPrefer, PolicyRequire, PolicyRequire}).Draw(rt, "policy2")
	} else {
		s.Policy = rapid.SampledFrom([]int{PolicyUnset, PolicyUnset, PolicySingle, PolicyPrefer}).Draw(rt, "policy1")
	}
}

// AddrUniverse lists the individual addresses of the tiny atoms (for explicit requests).
var AddrUniverse = []string{"10.0.0.0", "10.0.0.1", "10.0.0.2", "10.0.0.3", "10.0.0.4", "10.0.0.5", "10.0.0.6", "10.0.0.7", "10.0.0.8", "10.0.0.9",
	"10.0.0.254", "10.0.0.255", "10.0.1.0", "10.0.1.1", "10.0.1.2", "10.0.1.3", "10.0.1.255", "10.0.2.0", "10.0.2.252", "10.0.2.255", "10.9.9.9",
	"fc00::", "fc00::1", "fc00::2", "fc00::3", "fc00::4", "fc00::5", "fc00::6", "fc00::7", "fc00::8", "fc00::ff", "fc00::1:0", "fc00::1:1", "fc00:1::5", "fc99::1"}

func genAddrOfFamily(rt *rapid.T, v4 bool, label string) string {
	var c []string
	for _, a := range AddrUniverse {
		if strings.Contains(a, ":") != v4 {
			c = append(c, a)
		}
	}
	return rapid.SampledFrom(c).Draw(rt, label)
}

// GenRequest draws the explicit-request part of a service (mostly none).
func GenRequest(rt *rapid.T, s *SvcSpec, poolNames []string) {
	s.LBIP, s.LBIPs, s.LBIPsOld, s.Pool, s.PoolOld = "", "", false, "", false
	k := rapid.IntRange(0, 19).Draw(rt, "reqK")
	wantIP := func() string {
		var parts []string
		for _, f := range s.Families {
			parts = append(parts, genAddrOfFamily(rt, f == FamilyV4, "reqAddr"))
		}
		if len(parts) == 2 && rapid.IntRange(0, 4).Draw(rt, "reqOne") == 0 {
			parts = parts[:1]
		}
		if len(parts) == 1 && rapid.IntRange(0, 9).Draw(rt, "reqWrongFam") == 0 {
			parts[0] = genAddrOfFamily(rt, s.Families[0] != FamilyV4, "reqAddrW")
		}
		return strings.Join(parts, rapid.SampledFrom([]string{",", ", "}).Draw(rt, "reqSep"))
	}
	switch {
	case k < 12:
	case k < 14:
		ip := wantIP()
		if !strings.Contains(ip, ",") && rapid.Bool().Draw(rt, "useSpecLBIP") {
			s.LBIP = ip
		} else {
			s.LBIPs = ip
			s.LBIPsOld = rapid.IntRange(0, 4).Draw(rt, "lbipsOld") == 0
		}
	case k < 17:
		if len(poolNames) > 0 {
			s.Pool = rapid.SampledFrom(append(append([]string{}, poolNames...), "nosuchpool")).Draw(rt, "reqPool")
			s.PoolOld = rapid.IntRange(0, 4).Draw(rt, "poolOld") == 0
		}
	case k < 19:
		s.LBIPs = wantIP()
		if len(poolNames) > 0 {
			s.Pool = rapid.SampledFrom(poolNames).Draw(rt, "reqPool2")
		}
	default:
		s.LBIP = genAddrOfFamily(rt, true, "bothA")
		s.LBIPs = genAddrOfFamily(rt, true, "bothB")
	}
}

func GenSharing(rt *rapid.T, s *SvcSpec) {
	s.Sharing = rapid.SampledFrom([]string{"", "", "", "k1", "k1", "k1", "k2"}).Draw(rt, "sharing")
	s.ShareOld = s.Sharing != "" && rapid.IntRange(0, 5).Draw(rt, "shareOld") == 0
}

// GenSvc draws service number idx.
func GenSvc(rt *rapid.T, idx, namespaces int, poolNames []string) SvcSpec {
	if namespaces < 1 {
		namespaces = 1
	}
	s := SvcSpec{NS: NsNames[rapid.IntRange(0, min(namespaces, len(NsNames))-1).Draw(rt, "svcNs")], Name: fmt.Sprintf("svc%d", idx), Labels: GenLabels(rt, "svclabels")}
	if rapid.IntRange(0, 11).Draw(rt, "typeK") == 0 {
		s.Type = TypeClusterIP
	}
	s.Ports = GenPorts(rt)
	GenSharing(rt, &s)
	s.Local = rapid.IntRange(0, 3).Draw(rt, "local") == 0
	s.Selector = GenSelector(rt)
	GenFamilies(rt, &s)
	GenRequest(rt, &s, poolNames)
	return s
}

// MutateSvc draws an update of one aspect of an existing service.
func MutateSvc(rt *rapid.T, s SvcSpec, namespaces int, poolNames []string) SvcSpec {
	n := s
	n.Ports = append([]PortSpec(nil), s.Ports...)
	switch rapid.IntRange(0, 9).Draw(rt, "mutK") {
	case 9:
		// one port moves to the other protocol and keeps its number
		i := rapid.IntRange(0, len(n.Ports)-1).Draw(rt, "flipPort")
		if n.Ports[i].Proto == "TCP" {
			n.Ports[i].Proto = "UDP"
		} else {
			n.Ports[i].Proto = "TCP"
		}
		for j := range n.Ports {
			if j != i && n.Ports[j] == n.Ports[i] { // Kubernetes rejects duplicate (protocol, port) pairs
				n.Ports = GenPorts(rt)
				break
			}
		}
	case 0:
		n.Ports = GenPorts(rt)
	case 1:
		GenSharing(rt, &n)
	case 2:
		n.Local = !n.Local
	case 3:
		n.Selector = GenSelector(rt)
	case 4, 5:
		GenRequest(rt, &n, poolNames)
	case 6:
		n.Type = TypeLoadBalancer
		if s.Type == TypeLoadBalancer {
			n.Type = TypeClusterIP
		}
	case 7:
		n.Labels = GenLabels(rt, "svclabels")
	case 8:
		// Kubernetes lets a service gain or lose its secondary family; the primary one is immutable.
		if len(s.Families) == 2 {
			n.Families = []int{s.Families[0]}
			n.Policy = rapid.SampledFrom([]int{PolicyUnset, PolicySingle, PolicyPrefer}).Draw(rt, "policyDown")
		} else {
			other := FamilyV6
			if s.Families[0] == FamilyV6 {
				other = FamilyV4
			}
			n.Families = []int{s.Families[0], other}
			n.Policy = rapid.SampledFrom([]int{PolicyPrefer, PolicyRequire}).Draw(rt, "policyUp")
		}
	}
	return n
}
