package verifworld

// Plain-data descriptions of the cluster objects the harnesses generate, the
// builders that turn them into API objects, and the harness's own address
// arithmetic (netip intervals) used by the oracles. Nothing in here calls
// MetalLB code.

import (
	"fmt"
	"net/netip"
	"sort"
	"strings"

	v1beta1 "go.universe.tf/metallb/api/v1beta1"
	v1beta2 "go.universe.tf/metallb/api/v1beta2"
	corev1 "k8s.io/api/core/v1"
	metav1 "k8s.io/apimachinery/pkg/apis/meta/v1"
)

const MetalNS = "metallb-system"

// ---------------------------------------------------------------- selectors

// Sel is a label selector in plain-data form. Plain keys are matchLabels
// entries; the prefixed keys encode matchExpressions:
//
//	"!k": ""   k DoesNotExist        "?k": ""   k Exists
//	"k!": "v"  k NotIn (v)           "k=": "v"  k In (v)
//
// The empty Sel is the empty selector {} and matches everything.
type Sel map[string]string

func (s Sel) Matches(l map[string]string) bool {
	for k, v := range s {
		switch {
		case strings.HasPrefix(k, "!"):
			if _, ok := l[k[1:]]; ok {
				return false
			}
		case strings.HasPrefix(k, "?"):
			if _, ok := l[k[1:]]; !ok {
				return false
			}
		case strings.HasSuffix(k, "!"): // NotIn; v is a comma-separated value list
			if w, ok := l[k[:len(k)-1]]; ok && inList(v, w) {
				return false
			}
		case strings.HasSuffix(k, "="): // In
			if w, ok := l[k[:len(k)-1]]; !ok || !inList(v, w) {
				return false
			}
		default:
			if w, ok := l[k]; !ok || w != v {
				return false
			}
		}
	}
	return true
}

func inList(list, w string) bool {
	for _, x := range strings.Split(list, ",") {
		if x == w {
			return true
		}
	}
	return false
}

func (s Sel) LS() metav1.LabelSelector {
	ls := metav1.LabelSelector{}
	keys := make([]string, 0, len(s))
	for k := range s {
		keys = append(keys, k)
	}
	sort.Strings(keys)
	for _, k := range keys {
		v := s[k]
		switch {
		case strings.HasPrefix(k, "!"):
			ls.MatchExpressions = append(ls.MatchExpressions, metav1.LabelSelectorRequirement{Key: k[1:], Operator: metav1.LabelSelectorOpDoesNotExist})
		case strings.HasPrefix(k, "?"):
			ls.MatchExpressions = append(ls.MatchExpressions, metav1.LabelSelectorRequirement{Key: k[1:], Operator: metav1.LabelSelectorOpExists})
		case strings.HasSuffix(k, "!"):
			ls.MatchExpressions = append(ls.MatchExpressions, metav1.LabelSelectorRequirement{Key: k[:len(k)-1], Operator: metav1.LabelSelectorOpNotIn, Values: strings.Split(v, ",")})
		case strings.HasSuffix(k, "="):
			ls.MatchExpressions = append(ls.MatchExpressions, metav1.LabelSelectorRequirement{Key: k[:len(k)-1], Operator: metav1.LabelSelectorOpIn, Values: strings.Split(v, ",")})
		default:
			if ls.MatchLabels == nil {
				ls.MatchLabels = map[string]string{}
			}
			ls.MatchLabels[k] = v
		}
	}
	return ls
}

// IsPlain: only matchLabels entries (usable as a label set).
func (s Sel) IsPlain() bool {
	for k := range s {
		if strings.HasPrefix(k, "!") || strings.HasPrefix(k, "?") || strings.HasSuffix(k, "!") || strings.HasSuffix(k, "=") {
			return false
		}
	}
	return true
}

func selsLS(ss []Sel) []metav1.LabelSelector {
	var out []metav1.LabelSelector
	for _, s := range ss {
		out = append(out, s.LS())
	}
	return out
}

// AnyMatches: an empty selector list selects everything (the convention of the
// node / pool selectors); otherwise a disjunction.
func AnyMatches(ss []Sel, l map[string]string) bool {
	if len(ss) == 0 {
		return true
	}
	for _, s := range ss {
		if s.Matches(l) {
			return true
		}
	}
	return false
}

func copyLabels(m map[string]string) map[string]string {
	if m == nil {
		return nil
	}
	out := map[string]string{}
	for k, v := range m {
		out[k] = v
	}
	return out
}

// ---------------------------------------------------------------- specs

type AllocSpec struct {
	Priority   int      `json:"priority"`
	Namespaces []string `json:"namespaces,omitempty"`
	NsSel      []Sel    `json:"ns_sel,omitempty"`
	SvcSel     []Sel    `json:"svc_sel,omitempty"`
}

type PoolSpec struct {
	Name       string            `json:"name"`
	Addresses  []string          `json:"addresses"`
	AvoidBuggy bool              `json:"avoid_buggy,omitempty"`
	AutoAssign int               `json:"auto_assign,omitempty"` // 0 unset (=true), 1 true, 2 false
	Labels     map[string]string `json:"labels,omitempty"`
	Alloc      *AllocSpec        `json:"alloc,omitempty"`
}

func (p PoolSpec) Auto() bool { return p.AutoAssign != 2 }

func (p PoolSpec) CR() v1beta1.IPAddressPool {
	cr := v1beta1.IPAddressPool{ObjectMeta: metav1.ObjectMeta{Name: p.Name, Namespace: MetalNS, Labels: copyLabels(p.Labels)}}
	cr.Spec.Addresses = append([]string{}, p.Addresses...)
	cr.Spec.AvoidBuggyIPs = p.AvoidBuggy
	switch p.AutoAssign {
	case 1:
		t := true
		cr.Spec.AutoAssign = &t
	case 2:
		f := false
		cr.Spec.AutoAssign = &f
	}
	if p.Alloc != nil {
		cr.Spec.AllocateTo = &v1beta1.ServiceAllocation{Priority: p.Alloc.Priority, Namespaces: append([]string{}, p.Alloc.Namespaces...),
			NamespaceSelectors: selsLS(p.Alloc.NsSel), ServiceSelectors: selsLS(p.Alloc.SvcSel)}
	}
	return cr
}

type NamespaceSpec struct {
	Name   string            `json:"name"`
	Labels map[string]string `json:"labels,omitempty"`
}

func (n NamespaceSpec) CR() corev1.Namespace {
	return corev1.Namespace{ObjectMeta: metav1.ObjectMeta{Name: n.Name, Labels: copyLabels(n.Labels)}}
}

type NodeSpec struct {
	Name        string            `json:"name"`
	Labels      map[string]string `json:"labels,omitempty"`
	IPs         []string          `json:"ips,omitempty"` // InternalIP addresses
	Unavailable bool              `json:"unavailable,omitempty"`
	Excluded    bool              `json:"excluded,omitempty"`
	ExclValue   string            `json:"excluded_value,omitempty"` // value of the exclude label (the label counts by presence, whatever its value)
}

func (n NodeSpec) AllLabels() map[string]string {
	l := copyLabels(n.Labels)
	if n.Excluded {
		if l == nil {
			l = map[string]string{}
		}
		l[corev1.LabelNodeExcludeBalancers] = n.ExclValue
	}
	return l
}

func (n NodeSpec) CR() corev1.Node {
	cr := corev1.Node{ObjectMeta: metav1.ObjectMeta{Name: n.Name, Labels: n.AllLabels()}}
	for _, ip := range n.IPs {
		cr.Status.Addresses = append(cr.Status.Addresses, corev1.NodeAddress{Type: corev1.NodeInternalIP, Address: ip})
	}
	if n.Unavailable {
		cr.Status.Conditions = append(cr.Status.Conditions, corev1.NodeCondition{Type: corev1.NodeNetworkUnavailable, Status: corev1.ConditionTrue})
	}
	return cr
}

type L2AdvSpec struct {
	Name       string   `json:"name"`
	Pools      []string `json:"pools,omitempty"`
	PoolSel    []Sel    `json:"pool_sel,omitempty"`
	NodeSel    []Sel    `json:"node_sel,omitempty"`
	Interfaces []string `json:"interfaces,omitempty"`
}

func (a L2AdvSpec) CR() v1beta1.L2Advertisement {
	cr := v1beta1.L2Advertisement{ObjectMeta: metav1.ObjectMeta{Name: a.Name, Namespace: MetalNS}}
	cr.Spec.IPAddressPools = append([]string(nil), a.Pools...)
	cr.Spec.IPAddressPoolSelectors = selsLS(a.PoolSel)
	cr.Spec.NodeSelectors = selsLS(a.NodeSel)
	cr.Spec.Interfaces = append([]string(nil), a.Interfaces...)
	return cr
}

type BGPAdvSpec struct {
	Name        string   `json:"name"`
	Pools       []string `json:"pools,omitempty"`
	PoolSel     []Sel    `json:"pool_sel,omitempty"`
	NodeSel     []Sel    `json:"node_sel,omitempty"`
	Agg4        int      `json:"agg4"` // -1 unset
	Agg6        int      `json:"agg6"` // -1 unset
	LocalPref   uint32   `json:"localpref,omitempty"`
	Communities []string `json:"communities,omitempty"`
	Peers       []string `json:"peers,omitempty"`
}

func (a BGPAdvSpec) AggV4() int {
	if a.Agg4 < 0 {
		return 32
	}
	return a.Agg4
}
func (a BGPAdvSpec) AggV6() int {
	if a.Agg6 < 0 {
		return 128
	}
	return a.Agg6
}

func (a BGPAdvSpec) CR() v1beta1.BGPAdvertisement {
	cr := v1beta1.BGPAdvertisement{ObjectMeta: metav1.ObjectMeta{Name: a.Name, Namespace: MetalNS}}
	cr.Spec.IPAddressPools = append([]string(nil), a.Pools...)
	cr.Spec.IPAddressPoolSelectors = selsLS(a.PoolSel)
	cr.Spec.NodeSelectors = selsLS(a.NodeSel)
	if a.Agg4 >= 0 {
		v := int32(a.Agg4)
		cr.Spec.AggregationLength = &v
	}
	if a.Agg6 >= 0 {
		v := int32(a.Agg6)
		cr.Spec.AggregationLengthV6 = &v
	}
	cr.Spec.LocalPref = a.LocalPref
	cr.Spec.Communities = append([]string(nil), a.Communities...)
	cr.Spec.Peers = append([]string(nil), a.Peers...)
	return cr
}

type PeerSpec struct {
	Name     string `json:"name"`
	MyASN    uint32 `json:"my_asn"`
	ASN      uint32 `json:"asn"`
	Address  string `json:"address"`
	Port     uint16 `json:"port,omitempty"`
	NodeSel  []Sel  `json:"node_sel,omitempty"`
	RouterID string `json:"router_id,omitempty"`
	HoldSec  int    `json:"hold_sec,omitempty"`
	Password string `json:"password,omitempty"`
	Secret   string `json:"secret,omitempty"`
	BFD      string `json:"bfd,omitempty"`
	VRF      string `json:"vrf,omitempty"`
	MultiHop bool   `json:"multihop,omitempty"`
}

func (p PeerSpec) CR() v1beta2.BGPPeer {
	cr := v1beta2.BGPPeer{ObjectMeta: metav1.ObjectMeta{Name: p.Name, Namespace: MetalNS}}
	cr.Spec.MyASN, cr.Spec.ASN, cr.Spec.Address, cr.Spec.Port = p.MyASN, p.ASN, p.Address, p.Port
	cr.Spec.NodeSelectors = selsLS(p.NodeSel)
	cr.Spec.RouterID = p.RouterID
	if p.HoldSec > 0 {
		cr.Spec.HoldTime = &metav1.Duration{Duration: secs(p.HoldSec)}
	}
	cr.Spec.Password = p.Password
	if p.Secret != "" {
		cr.Spec.PasswordSecret = corev1.SecretReference{Name: p.Secret, Namespace: MetalNS}
	}
	cr.Spec.BFDProfile = p.BFD
	cr.Spec.VRFName = p.VRF
	cr.Spec.EBGPMultiHop = p.MultiHop
	return cr
}

// WantPassword is the password the peer's session must be created with.
func (p PeerSpec) WantPassword() string {
	if p.Secret != "" {
		return "sec-" + p.Name
	}
	return p.Password
}

// SecretCRs returns the Secret the peer references (in MetalLB's namespace) followed by a decoy of the same
// name in another namespace, which MetalLB must never look at.
func (p PeerSpec) SecretCRs() []*corev1.Secret {
	if p.Secret == "" {
		return nil
	}
	return []*corev1.Secret{
		{ObjectMeta: metav1.ObjectMeta{Name: p.Secret, Namespace: MetalNS}, Type: corev1.SecretTypeBasicAuth, Data: map[string][]byte{"password": []byte(p.WantPassword())}},
		{ObjectMeta: metav1.ObjectMeta{Name: p.Secret, Namespace: "tenant"}, Type: corev1.SecretTypeBasicAuth, Data: map[string][]byte{"password": []byte("decoy-" + p.Name)}},
	}
}

type CommunitySpec struct {
	Name    string      `json:"name"`
	Aliases [][2]string `json:"aliases"` // name, value
}

func (c CommunitySpec) CR() v1beta1.Community {
	cr := v1beta1.Community{ObjectMeta: metav1.ObjectMeta{Name: c.Name, Namespace: MetalNS}}
	for _, a := range c.Aliases {
		cr.Spec.Communities = append(cr.Spec.Communities, v1beta1.CommunityAlias{Name: a[0], Value: a[1]})
	}
	return cr
}

type BFDSpec struct {
	Name string `json:"name"`
	Echo bool   `json:"echo,omitempty"`
	Rx   uint32 `json:"rx,omitempty"`
}

func (b BFDSpec) CR() v1beta1.BFDProfile {
	cr := v1beta1.BFDProfile{ObjectMeta: metav1.ObjectMeta{Name: b.Name, Namespace: MetalNS}}
	if b.Echo {
		t := true
		cr.Spec.EchoMode = &t
	}
	if b.Rx != 0 {
		v := b.Rx
		cr.Spec.ReceiveInterval = &v
	}
	return cr
}

// ---------------------------------------------------------------- address arithmetic (oracle side)

// Interval is an inclusive address range of one family (addresses unmapped).
type Interval struct {
	Lo, Hi netip.Addr
}

func (i Interval) V4() bool { return i.Lo.Is4() }
func (i Interval) Contains(a netip.Addr) bool {
	a = a.Unmap()
	return a.Is4() == i.Lo.Is4() && a.Compare(i.Lo) >= 0 && a.Compare(i.Hi) <= 0
}
func (i Interval) Overlaps(o Interval) bool {
	return i.V4() == o.V4() && i.Lo.Compare(o.Hi) <= 0 && o.Lo.Compare(i.Hi) <= 0
}
func (i Interval) String() string { return i.Lo.String() + "-" + i.Hi.String() }

// AddrSpecKind classifies what the user wrote.
type AddrSpecKind int

const (
	AddrBad AddrSpecKind = iota // not an address notation, reversed, or families mixed
	AddrCIDR
	AddrRange
	AddrExotic // syntactically fine but the harness does not define its meaning (IPv4-mapped prefix shorter than /96)
)

func lastAddr(p netip.Prefix) netip.Addr {
	a := p.Masked().Addr()
	b := a.AsSlice()
	bits := p.Bits()
	for i := bits; i < len(b)*8; i++ {
		b[i/8] |= 1 << (7 - uint(i%8))
	}
	r, _ := netip.AddrFromSlice(b)
	return r
}

// ParseAddrSpec gives the meaning of one entry of IPAddressPool.spec.addresses
// as the documentation defines it: a CIDR prefix (the whole network, also when
// written with host bits) or an inclusive start-end range. An IPv4-mapped IPv6
// spelling denotes the IPv4 address.
func ParseAddrSpec(s string) (Interval, AddrSpecKind, int) {
	if !strings.Contains(s, "-") {
		i := strings.LastIndexByte(s, '/')
		if i < 0 {
			return Interval{}, AddrBad, 0
		}
		a, err := netip.ParseAddr(s[:i])
		if err != nil || a.Zone() != "" {
			return Interval{}, AddrBad, 0
		}
		var bits int
		if _, err := fmt.Sscanf(s[i+1:], "%d", &bits); err != nil || fmt.Sprint(bits) != s[i+1:] {
			return Interval{}, AddrBad, 0
		}
		if a.Is4In6() {
			if bits > 128 {
				return Interval{}, AddrBad, 0
			}
			if bits < 96 {
				return Interval{}, AddrExotic, 0
			}
			a, bits = a.Unmap(), bits-96
		}
		if bits < 0 || bits > a.BitLen() {
			return Interval{}, AddrBad, 0
		}
		p := netip.PrefixFrom(a, bits).Masked()
		return Interval{p.Addr(), lastAddr(p)}, AddrCIDR, bits
	}
	fs := strings.SplitN(s, "-", 2)
	lo, err1 := netip.ParseAddr(strings.TrimSpace(fs[0]))
	hi, err2 := netip.ParseAddr(strings.TrimSpace(fs[1]))
	if err1 != nil || err2 != nil || lo.Zone() != "" || hi.Zone() != "" {
		return Interval{}, AddrBad, 0
	}
	lo, hi = lo.Unmap(), hi.Unmap()
	if lo.Is4() != hi.Is4() || lo.Compare(hi) > 0 {
		return Interval{}, AddrBad, 0
	}
	return Interval{lo, hi}, AddrRange, 0
}

// Normalize sorts and merges overlapping / adjacent intervals.
func Normalize(in []Interval) []Interval {
	s := append([]Interval(nil), in...)
	sort.Slice(s, func(i, j int) bool {
		if s[i].V4() != s[j].V4() {
			return s[i].V4()
		}
		return s[i].Lo.Compare(s[j].Lo) < 0
	})
	var out []Interval
	for _, iv := range s {
		if n := len(out); n > 0 && out[n-1].V4() == iv.V4() {
			last := &out[n-1]
			nx := last.Hi.Next()
			if iv.Lo.Compare(last.Hi) <= 0 || (nx.IsValid() && iv.Lo.Compare(nx) <= 0) {
				if iv.Hi.Compare(last.Hi) > 0 {
					last.Hi = iv.Hi
				}
				continue
			}
		}
		out = append(out, iv)
	}
	return out
}

func SameUnion(a, b []Interval) bool {
	a, b = Normalize(a), Normalize(b)
	if len(a) != len(b) {
		return false
	}
	for i := range a {
		if a[i] != b[i] {
			return false
		}
	}
	return true
}

// IsBuggy: IPv4 address ending in .0 or .255.
func IsBuggy(a netip.Addr) bool {
	a = a.Unmap()
	if !a.Is4() {
		return false
	}
	b := a.As4()
	return b[3] == 0 || b[3] == 255
}

// PoolIntervals returns the meaning of a pool's address list; ok=false when an entry is bad/exotic.
func (p PoolSpec) Intervals() ([]Interval, bool) {
	var out []Interval
	for _, s := range p.Addresses {
		iv, k, _ := ParseAddrSpec(s)
		if k == AddrBad || k == AddrExotic {
			return nil, false
		}
		out = append(out, iv)
	}
	return out, true
}

// Contains says whether addr is one of the pool's usable addresses.
func (p PoolSpec) Contains(a netip.Addr) bool {
	ivs, ok := p.Intervals()
	if !ok {
		return false
	}
	if p.AvoidBuggy && IsBuggy(a) {
		return false
	}
	for _, iv := range ivs {
		if iv.Contains(a) {
			return true
		}
	}
	return false
}

// Enumerate lists the usable addresses of a pool in interval order (caller guarantees smallness).
func (p PoolSpec) Enumerate(limit int) []netip.Addr {
	ivs, ok := p.Intervals()
	if !ok {
		return nil
	}
	var out []netip.Addr
	seen := map[netip.Addr]bool{}
	for _, iv := range ivs {
		for a := iv.Lo; a.IsValid() && a.Compare(iv.Hi) <= 0; a = a.Next() {
			if len(out) >= limit {
				return out
			}
			if seen[a] || (p.AvoidBuggy && IsBuggy(a)) {
				continue
			}
			seen[a] = true
			out = append(out, a)
		}
	}
	return out
}

func secs(n int) timeDuration { return timeDuration(n) * 1000000000 }

// ---------------------------------------------------------------- endpoint slices

// Tri is an optional boolean: 0 nil, 1 true, 2 false.
type Tri int

func (t Tri) Ptr() *bool {
	switch t {
	case 1:
		v := true
		return &v
	case 2:
		v := false
		return &v
	}
	return nil
}

type EndpointSpec struct {
	Addrs   []string `json:"addrs"`
	Node    string   `json:"node,omitempty"` // "" = no node name
	Ready   Tri      `json:"ready,omitempty"`
	Serving Tri      `json:"serving,omitempty"`
	Term    Tri      `json:"terminating,omitempty"` // irrelevant for eligibility: a terminating endpoint that still serves counts
}

// CanServe is EndpointSlice semantics as the documentation states it: ready (nil counts as ready) or serving.
func (e EndpointSpec) CanServe() bool {
	return e.Ready == 0 || e.Ready == 1 || e.Serving == 1
}

type SliceSpec struct {
	Name      string         `json:"name"`
	NS        string         `json:"ns"`
	Svc       string         `json:"svc"` // service name
	Endpoints []EndpointSpec `json:"endpoints"`
}

func (n NodeSpec) WithExcl(on bool, val string) NodeSpec {
	n.Excluded, n.ExclValue = on, val
	return n
}
