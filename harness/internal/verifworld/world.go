package verifworld

// World is the harness's mini API server: typed object lists whose order is
// chosen by the test case, implementing just the client.Client calls the real
// reconcilers make (Get, List). Writes happen through explicit methods.

import (
	"context"
	"fmt"
	"strings"

	v1beta1 "go.universe.tf/metallb/api/v1beta1"
	v1beta2 "go.universe.tf/metallb/api/v1beta2"
	corev1 "k8s.io/api/core/v1"
	discovery "k8s.io/api/discovery/v1"
	apierrors "k8s.io/apimachinery/pkg/api/errors"
	metav1 "k8s.io/apimachinery/pkg/apis/meta/v1"
	"k8s.io/apimachinery/pkg/runtime/schema"
	"sigs.k8s.io/controller-runtime/pkg/client"
)

const SliceIndex = "ServiceName" // == epslices.SlicesServiceIndexName

type World struct {
	client.Client // nil: anything but Get/List panics (the reconcilers under test never call more)

	Services   []*corev1.Service
	Slices     []*discovery.EndpointSlice
	Nodes      []*corev1.Node
	Namespaces []*corev1.Namespace
	Pools      []*v1beta1.IPAddressPool
	L2Advs     []*v1beta1.L2Advertisement
	BGPAdvs    []*v1beta1.BGPAdvertisement
	Peers      []*v1beta2.BGPPeer
	Comms      []*v1beta1.Community
	BFDs       []*v1beta1.BFDProfile
	Secrets    []*corev1.Secret
	ConfigMaps []*corev1.ConfigMap

	Lists int
	Gets  int

	// ServiceReadFault, when set, is consulted before every Get of a Service (kind "get"), List of Services (kind "list") and List of EndpointSlices (kind "slices"):
	// a non-nil error is returned to the caller (an API server / cache read failing).
	ServiceReadFault func(kind string) error

	// LBClass, when set, is the --lb-class the component under test runs with; Stamp gives a Service that class.
	LBClass string
}

// Stamp marks a Service object as belonging to the load-balancer class of this world (no-op without one).
func (w *World) Stamp(obj *corev1.Service) {
	if w.LBClass != "" && obj != nil {
		c := w.LBClass
		obj.Spec.LoadBalancerClass = &c
	}
}

func NewWorld() *World { return &World{} }

func (w *World) SetCluster(c ClusterSpec) {
	w.Pools, w.Namespaces, w.Nodes, w.L2Advs, w.BGPAdvs, w.Peers, w.Comms, w.BFDs = nil, nil, nil, nil, nil, nil, nil, nil
	w.ConfigMaps = nil
	if c.Extras != "" {
		w.ConfigMaps = []*corev1.ConfigMap{{ObjectMeta: metav1.ObjectMeta{Name: "bgpextras", Namespace: MetalNS}, Data: map[string]string{"extras": c.Extras}}}
	}
	for _, p := range c.Pools {
		cr := p.CR()
		w.Pools = append(w.Pools, &cr)
	}
	for _, p := range c.Namespaces {
		cr := p.CR()
		w.Namespaces = append(w.Namespaces, &cr)
	}
	for _, p := range c.Nodes {
		cr := p.CR()
		w.Nodes = append(w.Nodes, &cr)
	}
	for _, p := range c.L2 {
		cr := p.CR()
		w.L2Advs = append(w.L2Advs, &cr)
	}
	for _, p := range c.BGP {
		cr := p.CR()
		w.BGPAdvs = append(w.BGPAdvs, &cr)
	}
	w.Secrets = nil
	for _, p := range c.Peers {
		cr := p.CR()
		w.Peers = append(w.Peers, &cr)
		w.Secrets = append(w.Secrets, p.SecretCRs()...)
	}
	for _, p := range c.Comms {
		cr := p.CR()
		w.Comms = append(w.Comms, &cr)
	}
	for _, p := range c.BFD {
		cr := p.CR()
		w.BFDs = append(w.BFDs, &cr)
	}
}

func notFound(kind, name string) error {
	return apierrors.NewNotFound(schema.GroupResource{Resource: kind}, name)
}

func (w *World) Service(ns, name string) *corev1.Service {
	for _, s := range w.Services {
		if s.Namespace == ns && s.Name == name {
			return s
		}
	}
	return nil
}

func (w *World) ServiceByKey(key string) *corev1.Service {
	i := strings.IndexByte(key, '/')
	if i < 0 {
		return nil
	}
	return w.Service(key[:i], key[i+1:])
}

func (w *World) DeleteService(ns, name string) bool {
	for i, s := range w.Services {
		if s.Namespace == ns && s.Name == name {
			w.Services = append(w.Services[:i:i], w.Services[i+1:]...)
			return true
		}
	}
	return false
}

func (w *World) Node(name string) *corev1.Node {
	for _, n := range w.Nodes {
		if n.Name == name {
			return n
		}
	}
	return nil
}

func (w *World) Get(ctx context.Context, key client.ObjectKey, obj client.Object, opts ...client.GetOption) error {
	w.Gets++
	if _, isSvc := obj.(*corev1.Service); isSvc && w.ServiceReadFault != nil {
		if err := w.ServiceReadFault("get"); err != nil {
			return err
		}
	}
	switch o := obj.(type) {
	case *corev1.Service:
		s := w.Service(key.Namespace, key.Name)
		if s == nil {
			return notFound("services", key.Name)
		}
		s.DeepCopyInto(o)
		return nil
	case *corev1.Node:
		n := w.Node(key.Name)
		if n == nil {
			return notFound("nodes", key.Name)
		}
		n.DeepCopyInto(o)
		return nil
	case *corev1.ConfigMap:
		for _, c := range w.ConfigMaps {
			if c.Namespace == key.Namespace && c.Name == key.Name {
				c.DeepCopyInto(o)
				return nil
			}
		}
		return notFound("configmaps", key.Name)
	}
	panic(fmt.Sprintf("verifworld.World.Get: unsupported type %T", obj))
}

func (w *World) List(ctx context.Context, list client.ObjectList, opts ...client.ListOption) error {
	w.Lists++
	if _, isSvc := list.(*corev1.ServiceList); isSvc && w.ServiceReadFault != nil {
		if err := w.ServiceReadFault("list"); err != nil {
			return err
		}
	}
	lo := client.ListOptions{}
	lo.ApplyOptions(opts)
	inNS := func(ns string) bool { return lo.Namespace == "" || lo.Namespace == ns }
	switch l := list.(type) {
	case *corev1.ServiceList:
		l.Items = nil
		for _, s := range w.Services {
			if inNS(s.Namespace) {
				l.Items = append(l.Items, *s.DeepCopy())
			}
		}
	case *discovery.EndpointSliceList:
		if w.ServiceReadFault != nil {
			if err := w.ServiceReadFault("slices"); err != nil {
				return err
			}
		}
		l.Items = nil
		want, has := "", false
		if lo.FieldSelector != nil {
			want, has = lo.FieldSelector.RequiresExactMatch(SliceIndex)
		}
		for _, s := range w.Slices {
			if !inNS(s.Namespace) {
				continue
			}
			if has && s.Namespace+"/"+s.Labels[discovery.LabelServiceName] != want {
				continue
			}
			l.Items = append(l.Items, *s.DeepCopy())
		}
	case *corev1.NodeList:
		// cluster-scoped: a namespace restriction matches nothing (the informer cache filters on the namespace index)
		l.Items = nil
		for _, s := range w.Nodes {
			if lo.Namespace == "" {
				l.Items = append(l.Items, *s.DeepCopy())
			}
		}
	case *corev1.NamespaceList:
		l.Items = nil
		for _, s := range w.Namespaces {
			if lo.Namespace == "" {
				l.Items = append(l.Items, *s.DeepCopy())
			}
		}
	case *corev1.SecretList:
		l.Items = nil
		for _, s := range w.Secrets {
			if inNS(s.Namespace) {
				l.Items = append(l.Items, *s.DeepCopy())
			}
		}
	case *v1beta1.IPAddressPoolList:
		l.Items = nil
		for _, s := range w.Pools {
			if inNS(s.Namespace) {
				l.Items = append(l.Items, *s.DeepCopy())
			}
		}
	case *v1beta1.L2AdvertisementList:
		l.Items = nil
		for _, s := range w.L2Advs {
			if inNS(s.Namespace) {
				l.Items = append(l.Items, *s.DeepCopy())
			}
		}
	case *v1beta1.BGPAdvertisementList:
		l.Items = nil
		for _, s := range w.BGPAdvs {
			if inNS(s.Namespace) {
				l.Items = append(l.Items, *s.DeepCopy())
			}
		}
	case *v1beta2.BGPPeerList:
		l.Items = nil
		for _, s := range w.Peers {
			if inNS(s.Namespace) {
				l.Items = append(l.Items, *s.DeepCopy())
			}
		}
	case *v1beta1.CommunityList:
		l.Items = nil
		for _, s := range w.Comms {
			if inNS(s.Namespace) {
				l.Items = append(l.Items, *s.DeepCopy())
			}
		}
	case *v1beta1.BFDProfileList:
		l.Items = nil
		for _, s := range w.BFDs {
			if inNS(s.Namespace) {
				l.Items = append(l.Items, *s.DeepCopy())
			}
		}
	default:
		panic(fmt.Sprintf("verifworld.World.List: unsupported type %T", list))
	}
	return nil
}

// PermuteServices reorders the service list (the order List returns).
func (w *World) PermuteServices(p []int) {
	if len(p) != len(w.Services) {
		return
	}
	out := make([]*corev1.Service, len(p))
	seen := map[int]bool{}
	for i, j := range p {
		if j < 0 || j >= len(p) || seen[j] {
			return
		}
		seen[j] = true
		out[i] = w.Services[j]
	}
	w.Services = out
}

// ---------------------------------------------------------------- services

type PortSpec struct {
	Proto string `json:"proto"`
	Port  int    `json:"port"`
}

const (
	AnnPool          = "metallb.io/address-pool"
	AnnPoolOld       = "metallb.universe.tf/address-pool"
	AnnLBIPs         = "metallb.io/loadBalancerIPs"
	AnnLBIPsOld      = "metallb.universe.tf/loadBalancerIPs"
	AnnShare         = "metallb.io/allow-shared-ip"
	AnnShareOld      = "metallb.universe.tf/allow-shared-ip"
	AnnFromPool      = "metallb.io/ip-allocated-from-pool"
	FamilyV4         = 4
	FamilyV6         = 6
	PolicyUnset      = 0
	PolicySingle     = 1
	PolicyPrefer     = 2
	PolicyRequire    = 3
	ClusterIPv4Fmt   = "172.16.0.%d"
	ClusterIPv6Fmt   = "fd00:aaaa::%x"
	TypeLoadBalancer = 0
	TypeClusterIP    = 1
)

// SvcSpec is everything a user controls on a Service.
type SvcSpec struct {
	NS       string            `json:"ns"`
	Name     string            `json:"name"`
	Labels   map[string]string `json:"labels,omitempty"`
	Type     int               `json:"type,omitempty"`
	Ports    []PortSpec        `json:"ports"`
	Sharing  string            `json:"sharing,omitempty"`
	ShareOld bool              `json:"share_old,omitempty"` // deprecated annotation spelling
	Local    bool              `json:"local,omitempty"`
	Selector map[string]string `json:"selector,omitempty"`
	Families []int             `json:"families"` // cluster IP families in order: [4], [6], [4,6], [6,4]
	Policy   int               `json:"policy,omitempty"`
	LBIP     string            `json:"lbip,omitempty"`  // spec.loadBalancerIP
	LBIPs    string            `json:"lbips,omitempty"` // annotation
	LBIPsOld bool              `json:"lbips_old,omitempty"`
	Pool     string            `json:"pool,omitempty"`
	PoolOld  bool              `json:"pool_old,omitempty"`
	Class    string            `json:"class,omitempty"`
}

func (s SvcSpec) Key() string { return s.NS + "/" + s.Name }

// Apply writes the user-controlled part onto obj, keeping status and the
// annotation MetalLB itself maintains (as a kubectl apply would).
func (s SvcSpec) Apply(obj *corev1.Service, idx int) {
	from, had := obj.Annotations[AnnFromPool]
	obj.ObjectMeta.Namespace, obj.ObjectMeta.Name = s.NS, s.Name
	obj.Labels = copyLabels(s.Labels)
	obj.Annotations = map[string]string{}
	if had {
		obj.Annotations[AnnFromPool] = from
	}
	if s.Sharing != "" {
		if s.ShareOld {
			obj.Annotations[AnnShareOld] = s.Sharing
		} else {
			obj.Annotations[AnnShare] = s.Sharing
		}
	}
	if s.LBIPs != "" {
		if s.LBIPsOld {
			obj.Annotations[AnnLBIPsOld] = s.LBIPs
		} else {
			obj.Annotations[AnnLBIPs] = s.LBIPs
		}
	}
	if s.Pool != "" {
		if s.PoolOld {
			obj.Annotations[AnnPoolOld] = s.Pool
		} else {
			obj.Annotations[AnnPool] = s.Pool
		}
	}
	if len(obj.Annotations) == 0 {
		obj.Annotations = nil
	}
	sp := corev1.ServiceSpec{}
	if s.Type == TypeClusterIP {
		sp.Type = corev1.ServiceTypeClusterIP
	} else {
		sp.Type = corev1.ServiceTypeLoadBalancer
	}
	for _, p := range s.Ports {
		sp.Ports = append(sp.Ports, corev1.ServicePort{Protocol: corev1.Protocol(p.Proto), Port: int32(p.Port)})
	}
	if s.Local {
		sp.ExternalTrafficPolicy = corev1.ServiceExternalTrafficPolicyTypeLocal
	} else {
		sp.ExternalTrafficPolicy = corev1.ServiceExternalTrafficPolicyTypeCluster
	}
	sp.Selector = copyLabels(s.Selector)
	for _, f := range s.Families {
		if f == FamilyV4 {
			sp.ClusterIPs = append(sp.ClusterIPs, fmt.Sprintf(ClusterIPv4Fmt, idx+1))
			sp.IPFamilies = append(sp.IPFamilies, corev1.IPv4Protocol)
		} else {
			sp.ClusterIPs = append(sp.ClusterIPs, fmt.Sprintf(ClusterIPv6Fmt, idx+1))
			sp.IPFamilies = append(sp.IPFamilies, corev1.IPv6Protocol)
		}
	}
	if len(sp.ClusterIPs) > 0 {
		sp.ClusterIP = sp.ClusterIPs[0]
	}
	switch s.Policy {
	case PolicySingle:
		p := corev1.IPFamilyPolicySingleStack
		sp.IPFamilyPolicy = &p
	case PolicyPrefer:
		p := corev1.IPFamilyPolicyPreferDualStack
		sp.IPFamilyPolicy = &p
	case PolicyRequire:
		p := corev1.IPFamilyPolicyRequireDualStack
		sp.IPFamilyPolicy = &p
	}
	sp.LoadBalancerIP = s.LBIP
	if s.Class != "" {
		c := s.Class
		sp.LoadBalancerClass = &c
	}
	obj.Spec = sp
}

func (s SvcSpec) Object(idx int) *corev1.Service {
	o := &corev1.Service{ObjectMeta: metav1.ObjectMeta{}}
	s.Apply(o, idx)
	return o
}

// IngressIPs returns the recorded addresses of a service object.
func IngressIPs(s *corev1.Service) []string {
	var out []string
	if s == nil {
		return nil
	}
	for _, i := range s.Status.LoadBalancer.Ingress {
		if i.IP != "" {
			out = append(out, i.IP)
		}
	}
	return out
}
