package verifworld

import "net/netip"

// JudgeAssignment is C02's oracle for one newly recorded address set: cl = current CRs, s = the service,
// as = the addresses recorded, pre = who held what before the call, how = Allocate | AllocateFromPool | Assign | AddFamily,
// hadBefore = the service already held addresses (then only membership/admission rules apply).
func JudgeAssignment(cl ClusterSpec, s SvcSpec, as []netip.Addr, pre Holders, how string, hadBefore bool, reqPool string, tr *Trace) *Violation {
	for _, a := range as {
		if !a.IsValid() {
			return Violationf("recorded-invalid-address", "%s recorded %v for %s", how, as, s.Key())
		}
	}
	p := cl.PoolOf(as)
	if p == nil {
		return Violationf("address-outside-pools", "%s recorded %v for %s: not all in one configured pool (or a .0/.255 of a pool that avoids them)", how, as, s.Key())
	}
	for j := range cl.Pools {
		q := cl.Pools[j]
		if q.Name == p.Name {
			continue
		}
		for _, a := range as {
			if q.Contains(a) {
				return Violationf("address-in-two-pools", "%s lies in pools %s and %s", a, p.Name, q.Name)
			}
		}
	}
	if !cl.Admits(*p, s) {
		sig := "pool-does-not-admit"
		if cl.NsSelMatchesNothing(*p) {
			// the known finding is identified by how the service came to the pool: on an explicit request / re-claim, or
			// automatically through the pool's service selectors; an automatic draw from a pool without service
			// selectors is a different failure
			path := "explicit-request-or-reclaim"
			if how == "Allocate" && !hadBefore {
				path = "automatic-without-service-selectors"
				if p.Alloc != nil && len(p.Alloc.SvcSel) > 0 {
					path = "automatic-via-service-selectors"
				}
			}
			sig = "pool-does-not-admit:namespace-selectors-match-no-namespace:" + path
		}
		return Violationf("pool-does-not-admit-service", "%s gave %s (ns %s labels %v) %v from pool %s whose serviceAllocation %+v does not admit it", how, s.Key(), s.NS, s.Labels, as, p.Name, *p.Alloc).WithSig(sig)
	}
	if len(as) > 2 || (len(as) == 2 && as[0].Is4() == as[1].Is4()) {
		return Violationf("family-pair", "%s recorded %v for %s", how, as, s.Key())
	}
	if hadBefore || how == "Assign" || how == "AddFamily" {
		return nil // keeps / explicit: family & policy rules below are for fresh automatic choices
	}
	n := s.Need()
	has4, has6 := false, false
	for _, a := range as {
		if a.Is4() {
			has4 = true
		} else {
			has6 = true
		}
	}
	switch {
	case n.Dual() && !n.Prefer:
		if !(has4 && has6) {
			return Violationf("family-require-dual", "%s gave RequireDualStack service %s only %v", how, s.Key(), as)
		}
	case n.Dual():
		if !has4 && !has6 {
			return Violationf("family-none", "%s gave %s nothing", how, s.Key())
		}
	case n.V4:
		if !has4 || has6 {
			return Violationf("family-mismatch", "%s gave IPv4 service %s %v", how, s.Key(), as)
		}
	case n.V6:
		if !has6 || has4 {
			return Violationf("family-mismatch", "%s gave IPv6 service %s %v", how, s.Key(), as)
		}
	}
	if how == "AllocateFromPool" {
		if p.Name != reqPool {
			return Violationf("wrong-pool", "AllocateFromPool(%s) for %s gave %v of pool %s", reqPool, s.Key(), as, p.Name)
		}
		return nil
	}
	// automatic allocation
	if !p.Auto() {
		return Violationf("auto-assign-disabled-pool-used", "Allocate gave %s %v from pool %s which has autoAssign=false", s.Key(), as, p.Name)
	}
	cand := HolderOf(s, nil, "")
	var pinned []PoolSpec
	for _, q := range cl.Pools {
		if q.Pinned() && q.Auto() && cl.Admits(q, s) && !cl.NsSelMatchesNothing(q) {
			pinned = append(pinned, q)
		}
	}
	if len(pinned) >= 2 {
		tr.Class("several-pinned-candidates")
		tr.NonTrivial()
	}
	gotBoth := has4 && has6
	for _, q := range pinned {
		if q.Name == p.Name {
			continue
		}
		full, partial := pre.Satisfiable(q, cand, n)
		if !p.Pinned() {
			if full || partial {
				return Violationf("unpinned-before-pinned", "Allocate gave %s %v from unpinned pool %s although pinned pool %s (priority %d) could serve it", s.Key(), as, p.Name, q.Name, q.Alloc.Priority)
			}
			continue
		}
		better := q.Rank() < p.Rank()
		if n.Dual() && n.Prefer {
			if !gotBoth && full {
				return Violationf("prefer-dual-missed-full-pool", "PreferDualStack service %s got only %v from %s although pinned pool %s could give both families", s.Key(), as, p.Name, q.Name)
			}
			if gotBoth && better && full {
				return Violationf("priority-ignored", "Allocate gave %s %v from pool %s (priority %d) although pool %s (priority %d) could give both families", s.Key(), as, p.Name, p.Alloc.Priority, q.Name, q.Alloc.Priority)
			}
			if !gotBoth && better {
				// no pool gives both families: the one family it got must still come from the best-ranked pool that has it
				if v4, v6 := pre.Supply(q, cand); (has4 && v4.IsValid()) || (has6 && v6.IsValid()) {
					tr.Class("prefer-dual-partial-with-several-pinned-candidates")
					return Violationf("priority-ignored", "Allocate gave PreferDualStack service %s only %v, from pool %s (priority %d), although pool %s (priority %d) has a free address of that family", s.Key(), as, p.Name, p.Alloc.Priority, q.Name, q.Alloc.Priority)
				}
			}
			continue
		}
		if better && full {
			return Violationf("priority-ignored", "Allocate gave %s %v from pool %s (priority %d) although pool %s (priority %d) could serve it", s.Key(), as, p.Name, p.Alloc.Priority, q.Name, q.Alloc.Priority)
		}
	}
	if p.Pinned() {
		tr.Class("allocated-from-pinned")
	} else {
		tr.Class("allocated-from-unpinned")
	}
	return nil
}
