package verifworld

import (
	"fmt"
	"sort"
	"strings"

	"pgregory.net/rapid"
)

// BGPAdv is one requested advertisement of a session (plain data).
type BGPAdv struct {
	Prefix    string   `json:"prefix"`
	LocalPref uint32   `json:"localpref,omitempty"`
	Comms     []string `json:"comms,omitempty"` // "a:b" or "large:x:y:z"
}

// BGPSession describes one BGP session as the speaker would request it.
type BGPSession struct {
	Name       string   `json:"name"`
	VRF        string   `json:"vrf,omitempty"`
	MyASN      uint32   `json:"my_asn"`
	PeerASN    uint32   `json:"peer_asn,omitempty"`
	DynamicASN string   `json:"dynamic_asn,omitempty"`
	Addr       string   `json:"addr,omitempty"`
	Iface      string   `json:"iface,omitempty"`
	Src        string   `json:"src,omitempty"`
	Port       uint16   `json:"port,omitempty"`
	HoldSec    int      `json:"hold,omitempty"`
	KeepSec    int      `json:"keepalive,omitempty"`
	ConnectSec int      `json:"connect,omitempty"`
	Password   string   `json:"password,omitempty"`
	SecretRef  string   `json:"secret_ref,omitempty"`
	Multihop   bool     `json:"multihop,omitempty"`
	BFD        string   `json:"bfd,omitempty"`
	Graceful   bool     `json:"graceful,omitempty"`
	DisableMP  bool     `json:"disable_mp,omitempty"`
	RouterID   string   `json:"router_id,omitempty"`
	Advs       []BGPAdv `json:"advs,omitempty"`
}

// NeighborID is how both backends identify the neighbor inside a router/VRF.
func (s BGPSession) NeighborID() string {
	id := s.Addr
	if s.Iface != "" {
		id = s.Iface
	}
	if s.VRF != "" {
		id += "-" + s.VRF
	}
	return id
}

func (s BGPSession) PeerV6() bool { return strings.Contains(s.Addr, ":") }

// Activated: the address families the session carries.
func (s BGPSession) Activated() (v4, v6 bool) {
	if !s.DisableMP || s.Iface != "" {
		return true, true
	}
	return !s.PeerV6(), s.PeerV6()
}

// Route is what a neighbor is offered for one prefix.
type Route struct {
	LocalPref uint32   `json:"localpref"`
	Comms     []string `json:"comms"`
}

type RouteTable map[string]Route

// Requested computes the per-prefix route a session asks for (union of communities of equal prefixes).
func (s BGPSession) Requested() RouteTable {
	t := RouteTable{}
	v4, v6 := s.Activated()
	for _, a := range s.Advs {
		is6 := strings.Contains(a.Prefix, ":")
		if (is6 && !v6) || (!is6 && !v4) {
			continue
		}
		r := t[a.Prefix]
		if a.LocalPref != 0 {
			r.LocalPref = a.LocalPref
		}
		set := map[string]bool{}
		for _, c := range r.Comms {
			set[c] = true
		}
		for _, c := range a.Comms {
			set[strings.TrimPrefix(c, "large:")+largeMark(c)] = true
		}
		r.Comms = r.Comms[:0]
		for c := range set {
			r.Comms = append(r.Comms, c)
		}
		sort.Strings(r.Comms)
		t[a.Prefix] = r
	}
	return t
}

func largeMark(c string) string {
	if strings.HasPrefix(c, "large:") {
		return "(large)"
	}
	return ""
}

func (t RouteTable) String() string {
	var ks []string
	for k := range t {
		ks = append(ks, k)
	}
	sort.Strings(ks)
	var b strings.Builder
	for _, k := range ks {
		fmt.Fprintf(&b, "%s{lp=%d comm=%v} ", k, t[k].LocalPref, t[k].Comms)
	}
	return b.String()
}

func (t RouteTable) Equal(o RouteTable) bool { return t.String() == o.String() }

// two pairs share a network address and differ only in length
var bgpPrefixes = []string{"10.20.0.1/32", "10.20.0.2/32", "10.20.0.0/24", "10.20.0.0/25", "10.30.0.1/32", "fc00:20::1/128", "fc00:20::/64", "fc00:20::/48"}
var bgpComms = []string{"65000:1", "65000:2", "100:200", "large:1:2:3", "large:4:5:6"}

// GenBGPSessions draws 1..5 sessions that satisfy what the configuration layer
// guarantees in FRR mode: one router id, one local ASN per VRF, unique
// (address|interface, VRF), one local preference per prefix on a session.
func GenBGPSessions(rt *rapid.T, withSecrets bool) []BGPSession {
	n := rapid.IntRange(1, 5).Draw(rt, "nsessions")
	vrfs := []string{"", "red", "blue"}
	routerID := rapid.SampledFrom([]string{"", "10.0.0.1"}).Draw(rt, "routerID")
	used := map[string]bool{}
	var out []BGPSession
	for i := 0; i < n; i++ {
		s := BGPSession{Name: fmt.Sprintf("peer%d", i), RouterID: routerID}
		vi := rapid.SampledFrom([]int{0, 0, 0, 1, 2}).Draw(rt, "vrf")
		s.VRF = vrfs[vi]
		s.MyASN = 64512 + uint32(vi)
		switch rapid.IntRange(0, 5).Draw(rt, "peerKind") {
		case 0, 1, 2:
			s.Addr = fmt.Sprintf("10.1.0.%d", rapid.IntRange(1, 3).Draw(rt, "peerAddr4"))
		case 3, 4:
			s.Addr = fmt.Sprintf("fc00:9::%d", rapid.IntRange(1, 3).Draw(rt, "peerAddr6"))
		default:
			s.Iface = rapid.SampledFrom([]string{"eth1", "eth2"}).Draw(rt, "peerIface")
		}
		if used[s.NeighborID()] {
			continue
		}
		used[s.NeighborID()] = true
		switch rapid.IntRange(0, 4).Draw(rt, "asnKind") {
		case 0, 1:
			s.PeerASN = s.MyASN
		case 2, 3:
			s.PeerASN = 65000 + uint32(rapid.IntRange(1, 2).Draw(rt, "peerASN"))
		default:
			s.DynamicASN = rapid.SampledFrom([]string{"internal", "external"}).Draw(rt, "dynASN")
		}
		if rapid.IntRange(0, 2).Draw(rt, "portK") == 0 {
			s.Port = uint16(rapid.SampledFrom([]int{179, 1179}).Draw(rt, "port"))
		}
		if rapid.IntRange(0, 2).Draw(rt, "timersK") == 0 {
			s.HoldSec = rapid.SampledFrom([]int{9, 90, 180}).Draw(rt, "hold")
			s.KeepSec = s.HoldSec / 3
		}
		if rapid.IntRange(0, 3).Draw(rt, "connectK") == 0 {
			s.ConnectSec = rapid.SampledFrom([]int{5, 60}).Draw(rt, "connect")
		}
		switch rapid.IntRange(0, 5).Draw(rt, "pwK") {
		case 0:
			s.Password = rapid.SampledFrom([]string{"secret1", "hunter2"}).Draw(rt, "password")
		case 1:
			if withSecrets {
				s.SecretRef = "peersecret"
			}
		}
		if rapid.IntRange(0, 3).Draw(rt, "srcK") == 0 {
			s.Src = "192.168.9.1"
		}
		if s.PeerASN != s.MyASN && s.DynamicASN != "internal" && rapid.IntRange(0, 3).Draw(rt, "mhK") == 0 {
			s.Multihop = true
		}
		if rapid.IntRange(0, 3).Draw(rt, "bfdK") == 0 {
			s.BFD = rapid.SampledFrom([]string{"bfd0", "bfd1"}).Draw(rt, "bfd")
		}
		s.Graceful = rapid.IntRange(0, 4).Draw(rt, "gr") == 0
		// disableMP on an unnumbered (interface) peer is not a documented combination (the peer has no address family of its own)
		s.DisableMP = s.Iface == "" && rapid.IntRange(0, 4).Draw(rt, "disableMP") == 0
		lps := map[string]uint32{}
		for j, m := 0, rapid.IntRange(0, 8).Draw(rt, "nadvs"); j < m; j++ {
			a := BGPAdv{Prefix: rapid.SampledFrom(bgpPrefixes).Draw(rt, "prefix")}
			if lp, ok := lps[a.Prefix]; ok {
				a.LocalPref = lp
			} else {
				a.LocalPref = rapid.SampledFrom([]uint32{0, 0, 100, 200}).Draw(rt, "lp")
				lps[a.Prefix] = a.LocalPref
			}
			for _, c := range bgpComms {
				if rapid.IntRange(0, 3).Draw(rt, "comm") == 0 {
					a.Comms = append(a.Comms, c)
				}
			}
			s.Advs = append(s.Advs, a)
		}
		out = append(out, s)
	}
	return out
}

// GenPriorAdvs draws an earlier advertisement list for a session: a same-length variation of the
// final one (an entry replaced by a copy of another entry, attributes changed), a shorter or a longer
// list, or nil (no earlier Set).
func GenPriorAdvs(rt *rapid.T, final []BGPAdv) []BGPAdv {
	if len(final) == 0 || rapid.IntRange(0, 2).Draw(rt, "priorK") == 0 {
		return nil
	}
	out := append([]BGPAdv(nil), final...)
	lps := map[string]uint32{}
	for _, a := range out {
		lps[a.Prefix] = a.LocalPref
	}
	for n := rapid.IntRange(1, 3).Draw(rt, "priorEdits"); n > 0; n-- {
		i := rapid.IntRange(0, len(out)-1).Draw(rt, "priorIdx")
		switch rapid.IntRange(0, 4).Draw(rt, "priorEdit") {
		case 0: // replace by a copy of another entry
			out[i] = out[rapid.IntRange(0, len(out)-1).Draw(rt, "priorSrc")]
		case 1: // other communities
			a := out[i]
			a.Comms = nil
			for _, c := range bgpComms {
				if rapid.IntRange(0, 2).Draw(rt, "priorComm") == 0 {
					a.Comms = append(a.Comms, c)
				}
			}
			out[i] = a
		case 2: // another prefix
			a := out[i]
			a.Prefix = rapid.SampledFrom(bgpPrefixes).Draw(rt, "priorPrefix")
			if lp, ok := lps[a.Prefix]; ok {
				a.LocalPref = lp
			} else {
				lps[a.Prefix] = a.LocalPref
			}
			out[i] = a
		case 3:
			out = append(out[:i:i], out[i+1:]...)
			if len(out) == 0 {
				return []BGPAdv{}
			}
		case 4:
			out = append(out, out[i])
		}
	}
	return out
}
