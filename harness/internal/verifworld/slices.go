package verifworld

import (
	"fmt"

	discovery "k8s.io/api/discovery/v1"
	metav1 "k8s.io/apimachinery/pkg/apis/meta/v1"
	"pgregory.net/rapid"
)

func (s SliceSpec) CR() discovery.EndpointSlice {
	cr := discovery.EndpointSlice{ObjectMeta: metav1.ObjectMeta{Name: s.Name, Namespace: s.NS, Labels: map[string]string{discovery.LabelServiceName: s.Svc}}}
	for _, e := range s.Endpoints {
		ep := discovery.Endpoint{Addresses: append([]string(nil), e.Addrs...)}
		if e.Node != "" {
			n := e.Node
			ep.NodeName = &n
		}
		ep.Conditions.Ready = e.Ready.Ptr()
		ep.Conditions.Serving = e.Serving.Ptr()
		ep.Conditions.Terminating = e.Term.Ptr()
		cr.Endpoints = append(cr.Endpoints, ep)
	}
	return cr
}

func SlicesCR(ss []SliceSpec) []discovery.EndpointSlice {
	var out []discovery.EndpointSlice
	for _, s := range ss {
		out = append(out, s.CR())
	}
	return out
}

// GenSlices draws 0..maxSlices slices for a service; endpoint addresses come from a
// 3-element alphabet so that the same address repeats with conflicting conditions.
// With pinAddrToNode every address lives on one node (a pod IP is on one node).
func GenSlices(rt *rapid.T, ns, svc string, nodes []string, maxSlices, maxEps int, pinAddrToNode bool) []SliceSpec {
	addrs := []string{"10.244.0.1", "10.244.0.2", "10.244.1.1"}
	home := map[string]string{}
	nodeChoices := append(append([]string{}, nodes...), "", "ghost-node")
	var out []SliceSpec
	for i, n := 0, rapid.IntRange(0, maxSlices).Draw(rt, "nslices"); i < n; i++ {
		s := SliceSpec{Name: fmt.Sprintf("%s-slice%d", svc, i), NS: ns, Svc: svc}
		for j, m := 0, rapid.IntRange(0, maxEps).Draw(rt, "neps"); j < m; j++ {
			e := EndpointSpec{Ready: Tri(rapid.SampledFrom([]int{0, 1, 1, 1, 2}).Draw(rt, "ready")), Serving: Tri(rapid.SampledFrom([]int{0, 0, 1, 2}).Draw(rt, "serving")),
				Term: Tri(rapid.SampledFrom([]int{0, 0, 0, 1, 2}).Draw(rt, "terminating"))}
			a := rapid.SampledFrom(addrs).Draw(rt, "epaddr")
			e.Addrs = []string{a}
			if rapid.IntRange(0, 9).Draw(rt, "twoaddr") == 0 {
				e.Addrs = append(e.Addrs, rapid.SampledFrom(addrs).Draw(rt, "epaddr2"))
			}
			e.Node = rapid.SampledFrom(nodeChoices).Draw(rt, "epnode")
			if pinAddrToNode {
				e.Addrs = e.Addrs[:1]
				if h, ok := home[a]; ok {
					e.Node = h
				} else {
					home[a] = e.Node
				}
			}
			s.Endpoints = append(s.Endpoints, e)
		}
		out = append(out, s)
	}
	return out
}
