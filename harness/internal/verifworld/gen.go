package verifworld

import (
	"fmt"
	"net/netip"
	"strings"
	"time"

	"pgregory.net/rapid"
)

type timeDuration = time.Duration

var labelKeys = []string{"a", "b"}
var labelVals = []string{"x", "y"}

// GenLabels draws 0..2 labels from a 2x2 alphabet so that matches and misses both occur.
func GenLabels(rt *rapid.T, label string) map[string]string {
	n := rapid.IntRange(0, 2).Draw(rt, label+"N")
	if n == 0 {
		return nil
	}
	m := map[string]string{}
	for i := 0; i < n; i++ {
		m[labelKeys[i]] = rapid.SampledFrom(labelVals).Draw(rt, label+"V")
	}
	return m
}

// GenSel draws a selector: mostly matchLabels, sometimes matchExpressions
// (Exists / DoesNotExist / In / NotIn), rarely the empty selector {}.
func GenSel(rt *rapid.T, label string) Sel {
	s := Sel{}
	k := rapid.SampledFrom(labelKeys).Draw(rt, label+"K")
	switch rapid.IntRange(0, 19).Draw(rt, label+"Shape") {
	case 0:
		return s // {} matches everything
	case 1:
		s["!"+k] = ""
		return s
	case 2:
		s["?"+k] = ""
		return s
	case 3:
		s[k+"!"] = genValList(rt, label)
		return s
	case 4:
		s[k+"="] = genValList(rt, label)
		return s
	}
	s[k] = rapid.SampledFrom(labelVals).Draw(rt, label+"V")
	if rapid.IntRange(0, 4).Draw(rt, label+"2") == 0 {
		for _, k2 := range labelKeys {
			if k2 != k {
				s[k2] = rapid.SampledFrom(labelVals).Draw(rt, label+"V2")
			}
		}
	}
	return s
}

// genValList: one value, or several in an order that is not necessarily sorted ("y,x", "z,x,y").
func genValList(rt *rapid.T, label string) string {
	v := rapid.SampledFrom(labelVals).Draw(rt, label+"V")
	if rapid.IntRange(0, 2).Draw(rt, label+"Multi") != 0 {
		return v
	}
	return strings.Join(rapid.SampledFrom([][]string{{"y", "x"}, {"x", "y"}, {"z", "x", "y"}, {"y", "z"}}).Draw(rt, label+"Vs"), ",")
}

// GenSels draws 0..max distinct selectors.
func GenSels(rt *rapid.T, label string, max int) []Sel {
	n := rapid.IntRange(0, max).Draw(rt, label+"N")
	var out []Sel
	seen := map[string]bool{}
	for i := 0; i < n; i++ {
		s := GenSel(rt, label)
		k := fmt.Sprint(s)
		if seen[k] {
			continue
		}
		seen[k] = true
		out = append(out, s)
	}
	return out
}

// Atom is a small address block with two spellings.
type Atom struct {
	Lo, Hi string
	CIDR   string // "" if the block is not a single prefix
	V4     bool
	Big    bool
}

func (a Atom) Spell(rt *rapid.T) string {
	k := rapid.IntRange(0, 5).Draw(rt, "spell")
	if a.CIDR != "" && k < 3 {
		return a.CIDR
	}
	switch k {
	case 3:
		return a.Lo + " - " + a.Hi
	case 4:
		if a.V4 {
			return "::ffff:" + a.Lo + "-" + a.Hi
		}
	}
	return a.Lo + "-" + a.Hi
}

// TinyAtoms is the colliding address universe of the allocator-level checks:
// blocks of 1..8 addresses, some containing .0/.255, crossing a /24 boundary,
// plus (optionally) large IPv6 prefixes for the counter arithmetic.
func TinyAtoms(big bool) []Atom {
	at := []Atom{
		{"10.0.0.0", "10.0.0.3", "10.0.0.0/30", true, false},
		{"10.0.0.4", "10.0.0.5", "10.0.0.4/31", true, false},
		{"10.0.0.6", "10.0.0.6", "10.0.0.6/32", true, false},
		{"10.0.0.7", "10.0.0.9", "", true, false},
		{"10.0.0.254", "10.0.1.1", "", true, false},
		{"10.0.1.2", "10.0.1.3", "10.0.1.2/31", true, false},
		{"10.0.1.255", "10.0.1.255", "10.0.1.255/32", true, false},
		{"10.0.2.0", "10.0.2.0", "10.0.2.0/32", true, false},
		{"10.0.2.252", "10.0.2.255", "10.0.2.252/30", true, false},
		{"fc00::", "fc00::3", "fc00::/126", false, false},
		{"fc00::4", "fc00::5", "fc00::4/127", false, false},
		{"fc00::6", "fc00::8", "", false, false},
		{"fc00::ff", "fc00::ff", "fc00::ff/128", false, false},
		{"fc00::1:0", "fc00::1:1", "fc00::1:0/127", false, false},
	}
	if big {
		at = append(at,
			Atom{"fc00:1::", "fc00:1::ffff:ffff:ffff:ffff", "fc00:1::/64", false, true},
			Atom{"fc00:2::", "fc00:2:0:ffff:ffff:ffff:ffff:ffff", "fc00:2::/48", false, true},
			Atom{"fc00:3::", "fc00:3::3fff:ffff:ffff:ffff", "fc00:3::/66", false, true},
			Atom{"fc00:4::", "fc00:4::7fff:ffff:ffff:ffff", "fc00:4::/65", false, true},
			Atom{"10.1.0.0", "10.1.3.255", "10.1.0.0/22", true, true},
			Atom{"10.2.0.128", "10.2.1.127", "", true, true},
		)
	}
	return at
}

// DealAtoms shuffles the universe and deals 1..maxPer atoms to each of n pools
// (pairwise disjoint by construction). Returns per pool the address strings.
func DealAtoms(rt *rapid.T, atoms []Atom, n, maxPer int) [][]string {
	perm := rapid.Permutation(atoms).Draw(rt, "atoms")
	out := make([][]string, n)
	i := 0
	for p := 0; p < n; p++ {
		k := rapid.IntRange(1, maxPer).Draw(rt, "natoms")
		for j := 0; j < k && i < len(perm); j++ {
			out[p] = append(out[p], perm[i].Spell(rt))
			i++
		}
	}
	return out
}

func MustAddr(s string) netip.Addr {
	a, err := netip.ParseAddr(s)
	if err != nil {
		panic(err)
	}
	return a.Unmap()
}

// GenExcl draws the exclude-from-external-load-balancers label: present with probability 1/oneIn, with a value
// that must not matter (the label is defined by presence).
func GenExcl(rt *rapid.T, oneIn int) (bool, string) {
	if rapid.IntRange(0, oneIn-1).Draw(rt, "excluded") != 0 {
		return false, ""
	}
	return true, rapid.SampledFrom([]string{"", "", "true", "false"}).Draw(rt, "excludedValue")
}
