// Package verifworld is the shared harness library of /verif. It only exists
// in verification builds: it is injected into the module with `go test
// -overlay` and never committed to the repository.
package verifworld

import (
	"encoding/binary"
	"encoding/json"
	"fmt"
	"hash/fnv"
	"os"
	"runtime/debug"
	"sort"
	"strconv"
	"strings"
	"sync"
	"testing"

	"pgregory.net/rapid"
)

// Violation is what an oracle returns when a case falsifies a property.
type Violation struct {
	// Kind is a short, deterministic label (no addresses, no map-order
	// dependent text): it is the message rapid sees, so that shrinking
	// does not declare the failure flaky.
	Kind string `json:"kind"`
	// Detail is free text for humans.
	Detail string `json:"detail"`
	// Sig identifies the specific failing input / call site / history for
	// the known-findings file. Empty = never matches a known finding.
	Sig string `json:"sig,omitempty"`
}

func Violationf(kind, format string, args ...any) *Violation {
	return &Violation{Kind: kind, Detail: fmt.Sprintf(format, args...)}
}

func (v *Violation) WithSig(sig string) *Violation { v.Sig = sig; return v }

// Trace collects what actually happened while a case ran.
type Trace struct {
	classes    map[string]int
	nontrivial bool
	known      []string
}

func (t *Trace) Class(name string) {
	if t.classes == nil {
		t.classes = map[string]int{}
	}
	t.classes[name]++
}
func (t *Trace) NonTrivial() { t.nontrivial = true }

// Known notes that the run met a violation listed as a known finding and went on.
func (t *Trace) Known(id string)        { t.known = append(t.known, id) }
func (t *Trace) IsNonTrivial() bool     { return t.nontrivial }
func (t *Trace) Has(class string) bool  { return t.classes[class] > 0 }
func (t *Trace) Count(class string) int { return t.classes[class] }

// Options describe one engine of one property.
type Options struct {
	Property    string
	Engine      string
	Rule        string
	Assumptions []string
	// MaxSamples kept in the stats file (default 3).
	MaxSamples int
	// Exhaustive: the fixed case list of RunFixed is a complete enumeration of the space named in Rule.
	Exhaustive bool
}

type stats struct {
	Property      string         `json:"property"`
	Engine        string         `json:"engine"`
	Test          string         `json:"test"`
	Evaluations   int            `json:"evaluations"`
	NonTrivial    int            `json:"nontrivial"`
	Hashes        []uint64       `json:"hashes"`
	HashSaturated bool           `json:"hash_saturated"`
	Classes       map[string]int `json:"classes"`
	Samples       []any          `json:"samples"`
	ExcludedKnown int            `json:"excluded_known"`
	KnownHits     map[string]int `json:"known_hits"`
	Rule          string         `json:"rule"`
	Assumptions   []string       `json:"assumptions"`
	Exhaustive    bool           `json:"exhaustive,omitempty"`
	Extra         map[string]any `json:"extra,omitempty"`
}

const maxHashes = 100000

// Recorder accumulates per-engine statistics and flushes them to
// $VERIF_STATS_OUT (a directory; one file per test).
type Recorder struct {
	mu     sync.Mutex
	st     stats
	hashes map[uint64]struct{}
	max    int
}

func NewRecorder(t testing.TB, o Options) *Recorder {
	r := &Recorder{hashes: map[uint64]struct{}{}, max: o.MaxSamples}
	if r.max == 0 {
		r.max = 3
	}
	r.st = stats{Property: o.Property, Engine: o.Engine, Test: t.Name(), Classes: map[string]int{}, KnownHits: map[string]int{},
		Rule: o.Rule, Assumptions: o.Assumptions, Extra: map[string]any{}}
	return r
}

func hashOf(b []byte) uint64 {
	h := fnv.New64a()
	h.Write(b)
	return h.Sum64()
}

// Record registers one executed case.
func (r *Recorder) Record(c any, tr *Trace) {
	r.mu.Lock()
	defer r.mu.Unlock()
	r.st.Evaluations++
	for k, n := range tr.classes {
		r.st.Classes[k] += n
	}
	if len(tr.known) > 0 {
		r.st.ExcludedKnown++
		for _, id := range tr.known {
			r.st.KnownHits[id]++
		}
	}
	if !tr.nontrivial {
		return
	}
	r.st.NonTrivial++
	b, err := json.Marshal(c)
	if err != nil {
		return
	}
	h := hashOf(b)
	if _, ok := r.hashes[h]; ok {
		return
	}
	if len(r.hashes) >= maxHashes {
		r.st.HashSaturated = true
		return
	}
	r.hashes[h] = struct{}{}
	if len(r.st.Samples) < r.max && len(b) < 16384 {
		var v any
		_ = json.Unmarshal(b, &v)
		r.st.Samples = append(r.st.Samples, v)
	}
}

func (r *Recorder) Known(id string) {
	r.mu.Lock()
	defer r.mu.Unlock()
	r.st.ExcludedKnown++
	r.st.KnownHits[id]++
}

func (r *Recorder) SetExtra(k string, v any) {
	r.mu.Lock()
	defer r.mu.Unlock()
	r.st.Extra[k] = v
}
func (r *Recorder) SetExhaustive(b bool) { r.st.Exhaustive = b }

func (r *Recorder) Flush() {
	dir := os.Getenv("VERIF_STATS_OUT")
	if dir == "" {
		return
	}
	r.mu.Lock()
	defer r.mu.Unlock()
	r.st.Hashes = r.st.Hashes[:0]
	for h := range r.hashes {
		r.st.Hashes = append(r.st.Hashes, h)
	}
	sort.Slice(r.st.Hashes, func(i, j int) bool { return r.st.Hashes[i] < r.st.Hashes[j] })
	b, _ := json.Marshal(r.st)
	name := strings.ReplaceAll(r.st.Test, "/", "_")
	_ = os.MkdirAll(dir, 0o755)
	_ = os.WriteFile(fmt.Sprintf("%s/%s.stats.json", dir, name), b, 0o644)
}

// ---- known findings ------------------------------------------------------

type knownFinding struct {
	Property string `json:"property"`
	ID       string `json:"id"`
	Status   string `json:"status"` // "known" or "fixed"
	Sig      string `json:"sig"`
	What     string `json:"what"`
}

var (
	knownOnce sync.Once
	knownList []knownFinding
)

func loadKnown() {
	p := os.Getenv("VERIF_KNOWN")
	if p == "" {
		return
	}
	b, err := os.ReadFile(p)
	if err != nil {
		return
	}
	var f struct {
		Findings []knownFinding `json:"findings"`
	}
	if json.Unmarshal(b, &f) == nil {
		for _, k := range f.Findings {
			if k.Status == "known" {
				knownList = append(knownList, k)
			}
		}
	}
}

// KnownID returns the id of the known finding that lists exactly this
// violation signature for the property, or "".
func KnownID(property string, v *Violation) string {
	knownOnce.Do(loadKnown)
	if v == nil || v.Sig == "" {
		return ""
	}
	for _, k := range knownList {
		if k.Property == property && k.Sig == v.Sig {
			return k.ID
		}
	}
	return ""
}

// KnownSigs lists the signatures recorded as known for a property.
func KnownSigs(property string) map[string]string {
	knownOnce.Do(loadKnown)
	m := map[string]string{}
	for _, k := range knownList {
		if k.Property == property {
			m[k.Sig] = k.ID
		}
	}
	return m
}

// ---- running ---------------------------------------------------------------

type failFile struct {
	Property string          `json:"property"`
	Engine   string          `json:"engine"`
	Test     string          `json:"test"`
	Kind     string          `json:"kind"`
	Detail   string          `json:"detail"`
	Sig      string          `json:"sig,omitempty"`
	Case     json.RawMessage `json:"case"`
}

func writeFail(o Options, test string, c any, v *Violation) {
	p := os.Getenv("VERIF_FAIL_OUT")
	if p == "" {
		return
	}
	cb, _ := json.Marshal(c)
	b, _ := json.MarshalIndent(failFile{o.Property, o.Engine, test, v.Kind, v.Detail, v.Sig, cb}, "", " ")
	_ = os.WriteFile(p, b, 0o644)
}

// Safe runs f and converts a panic into a violation (kind "panic").
func Safe(f func() *Violation) (v *Violation) {
	defer func() {
		if r := recover(); r != nil {
			msg := fmt.Sprint(r)
			first := msg
			if i := strings.IndexByte(first, '\n'); i >= 0 {
				first = first[:i]
			}
			v = &Violation{Kind: "panic", Detail: msg + "\n" + string(debug.Stack()), Sig: "panic:" + first}
		}
	}()
	return f()
}

// Run is the entry point of every rapid engine. gen draws a plain-data case,
// run executes it against the real code and judges it. With $VERIF_REPLAY set
// the case is read from that file instead and rapid is bypassed.
func Run[C any](t *testing.T, o Options, gen func(*rapid.T) C, run func(C, *Trace) *Violation) {
	rec := NewRecorder(t, o)
	defer rec.Flush()
	exec := func(c C) (*Violation, *Trace) {
		tr := &Trace{}
		v := Safe(func() *Violation { return run(c, tr) })
		return v, tr
	}
	if p := os.Getenv("VERIF_REPLAY"); p != "" {
		b, err := os.ReadFile(p)
		if err != nil {
			t.Skipf("cannot read replay: %v", err)
		}
		var ff failFile
		if err := json.Unmarshal(b, &ff); err != nil {
			t.Fatalf("VERIF-INFRA bad replay file: %v", err)
		}
		if ff.Test != "" && ff.Test != t.Name() {
			t.Skipf("replay is for %s", ff.Test)
		}
		var c C
		if err := json.Unmarshal(ff.Case, &c); err != nil {
			t.Fatalf("VERIF-INFRA bad replay case: %v", err)
		}
		// the code under test iterates Go maps: a failing history may need several attempts to reproduce
		tries := 1
		if n, err := strconv.Atoi(os.Getenv("VERIF_REPLAY_TRIES")); err == nil && n > 0 {
			tries = n
		}
		var v *Violation
		var tr *Trace
		for i := 0; i < tries && v == nil; i++ {
			v, tr = exec(c)
			rec.Record(c, tr)
		}
		if v != nil {
			if id := KnownID(o.Property, v); id != "" {
				fmt.Fprintf(os.Stderr, "VERIF-KNOWN %s %s\n", id, v.Kind)
				return
			}
			writeFail(o, t.Name(), c, v)
			fmt.Fprintf(os.Stderr, "VERIF-VIOLATION kind=%s\n%s\n", v.Kind, v.Detail)
			t.Fatalf("violation: %s", v.Kind)
		}
		fmt.Fprintf(os.Stderr, "VERIF-REPLAY-PASS\n")
		return
	}
	rapid.Check(t, func(rt *rapid.T) {
		c := gen(rt)
		v, tr := exec(c)
		rec.Record(c, tr)
		if v == nil {
			return
		}
		if id := KnownID(o.Property, v); id != "" {
			rec.Known(id)
			return
		}
		writeFail(o, t.Name(), c, v)
		rt.Fatalf("%s", v.Kind)
	})
}

// RunFixed executes a fixed list of cases (witnesses for known findings,
// regression replays, exhaustive enumerations) through the same bookkeeping.
// A case that violates with a signature listed as known is reported via
// VERIF-KNOWN (the driver prints the KNOWN-FINDING line).
func RunFixed[C any](t *testing.T, o Options, cases []C, run func(C, *Trace) *Violation) {
	rec := NewRecorder(t, o)
	defer rec.Flush()
	rec.SetExhaustive(o.Exhaustive)
	for _, c := range cases {
		tr := &Trace{}
		v := Safe(func() *Violation { return run(c, tr) })
		rec.Record(c, tr)
		for _, id := range tr.known {
			fmt.Fprintf(os.Stderr, "VERIF-KNOWN %s (continued)\n", id)
		}
		if v == nil {
			continue
		}
		if id := KnownID(o.Property, v); id != "" {
			rec.Known(id)
			fmt.Fprintf(os.Stderr, "VERIF-KNOWN %s %s\n", id, v.Kind)
			continue
		}
		writeFail(o, t.Name(), c, v)
		fmt.Fprintf(os.Stderr, "VERIF-VIOLATION kind=%s\n%s\n", v.Kind, v.Detail)
		t.Fatalf("violation: %s", v.Kind)
	}
}

// U64 is a helper for binary hashing of enumerated cases.
func U64(v uint64) []byte { var b [8]byte; binary.LittleEndian.PutUint64(b[:], v); return b[:] }

// RunWitnesses re-executes the committed witness cases of known findings
// ($VERIF_WITNESS_DIR/*.json whose "test" field equals forTest). A witness that
// still violates with its listed signature is reported through VERIF-KNOWN
// (the driver prints the KNOWN-FINDING line); any other violation fails.
func RunWitnesses[C any](t *testing.T, o Options, forTest string, run func(C, *Trace) *Violation) {
	rec := NewRecorder(t, o)
	defer rec.Flush()
	dir := os.Getenv("VERIF_WITNESS_DIR")
	ents, _ := os.ReadDir(dir)
	for _, e := range ents {
		if !strings.HasSuffix(e.Name(), ".json") {
			continue
		}
		b, err := os.ReadFile(dir + "/" + e.Name())
		if err != nil {
			continue
		}
		var ff failFile
		if json.Unmarshal(b, &ff) != nil || ff.Test != forTest || ff.Property != o.Property {
			continue
		}
		var c C
		if err := json.Unmarshal(ff.Case, &c); err != nil {
			t.Fatalf("VERIF-INFRA bad witness %s: %v", e.Name(), err)
		}
		for i := 0; i < 50; i++ {
			tr := &Trace{}
			v := Safe(func() *Violation { return run(c, tr) })
			rec.Record(c, tr)
			hit := false
			for _, id := range tr.known {
				fmt.Fprintf(os.Stderr, "VERIF-KNOWN %s (witness %s)\n", id, e.Name())
				hit = true
			}
			if v != nil {
				if id := KnownID(o.Property, v); id != "" {
					rec.Known(id)
					fmt.Fprintf(os.Stderr, "VERIF-KNOWN %s (witness %s)\n", id, e.Name())
					hit = true
				} else {
					writeFail(o, forTest, c, v)
					fmt.Fprintf(os.Stderr, "VERIF-VIOLATION kind=%s\n%s\n", v.Kind, v.Detail)
					t.Fatalf("violation: %s", v.Kind)
				}
			}
			if hit {
				break
			}
		}
	}
}

// RunEnum enumerates a finite indexed space. The shard (VERIF_SHARD of VERIF_SHARDS) takes the
// indices congruent to it; with VERIF_TIER=quick only every stride-th of those is visited
// (offset by VERIF_SEED), and the run is then not marked exhaustive.
func RunEnum[C any](t *testing.T, o Options, n int, stride int, at func(i int) C, run func(C, *Trace) *Violation) {
	rec := NewRecorder(t, o)
	defer rec.Flush()
	shard, _ := strconv.Atoi(os.Getenv("VERIF_SHARD"))
	shards, _ := strconv.Atoi(os.Getenv("VERIF_SHARDS"))
	if shards < 1 {
		shards = 1
	}
	seed, _ := strconv.Atoi(os.Getenv("VERIF_SEED"))
	step := shards
	start := shard
	full := true
	if os.Getenv("VERIF_TIER") != "thorough" && stride > 1 {
		step = shards * stride
		start = shard + shards*(seed%stride)
		full = false
	}
	for i := start; i < n; i += step {
		c := at(i)
		tr := &Trace{}
		v := Safe(func() *Violation { return run(c, tr) })
		rec.Record(c, tr)
		if v == nil {
			continue
		}
		if id := KnownID(o.Property, v); id != "" {
			rec.Known(id)
			continue
		}
		writeFail(o, t.Name(), c, v)
		fmt.Fprintf(os.Stderr, "VERIF-VIOLATION kind=%s\n%s\n", v.Kind, v.Detail)
		t.Fatalf("violation: %s", v.Kind)
	}
	rec.SetExhaustive(full)
	rec.SetExtra("enumerated_space", n)
}
