package verifworld

import (
	"fmt"
	"strings"

	"pgregory.net/rapid"
)

// ClusterSpec is a snapshot of the configuration-relevant cluster objects.
type ClusterSpec struct {
	Pools      []PoolSpec      `json:"pools,omitempty"`
	Namespaces []NamespaceSpec `json:"namespaces,omitempty"`
	Nodes      []NodeSpec      `json:"nodes,omitempty"`
	L2         []L2AdvSpec     `json:"l2,omitempty"`
	BGP        []BGPAdvSpec    `json:"bgp,omitempty"`
	Peers      []PeerSpec      `json:"peers,omitempty"`
	Comms      []CommunitySpec `json:"comms,omitempty"`
	BFD        []BFDSpec       `json:"bfd,omitempty"`
	Extras     string          `json:"extras,omitempty"` // content of the bgpextras ConfigMap ("" = no ConfigMap)
}

func (c ClusterSpec) Pool(name string) *PoolSpec {
	for i := range c.Pools {
		if c.Pools[i].Name == name {
			return &c.Pools[i]
		}
	}
	return nil
}

func (c ClusterSpec) Namespace(name string) *NamespaceSpec {
	for i := range c.Namespaces {
		if c.Namespaces[i].Name == name {
			return &c.Namespaces[i]
		}
	}
	return nil
}

type ClusterOpts struct {
	MinPools, MaxPools int
	MaxAtomsPerPool    int
	BigAtoms           bool
	Namespaces         int // number of namespaces ns0..ns{n-1}
	MinNodes, MaxNodes int
	L2, BGP            int // max number of advertisements
	Peers              int
	Alloc              bool // generate serviceAllocation blocks
	NativeBGP          bool // only what native mode accepts (v4, legacy communities)
	Extra              bool // communities CRs, BFD profiles
	Overlap            bool // occasionally add a prefix that covers other pools' addresses: such a configuration must be rejected
}

var NsNames = []string{"ns0", "ns1", "ns2"}

// GenPools deals disjoint atoms to pools and decorates them with policy attributes.
func GenPools(rt *rapid.T, o ClusterOpts) []PoolSpec {
	n := rapid.IntRange(o.MinPools, o.MaxPools).Draw(rt, "npools")
	per := o.MaxAtomsPerPool
	if per == 0 {
		per = 3
	}
	atoms := TinyAtoms(o.BigAtoms)
	if o.NativeBGP {
		var v4 []Atom
		for _, a := range atoms {
			if a.V4 {
				v4 = append(v4, a)
			}
		}
		atoms = v4
	}
	addrs := DealAtoms(rt, atoms, n, per)
	var pools []PoolSpec
	for i := 0; i < n; i++ {
		if len(addrs[i]) == 0 {
			continue
		}
		p := PoolSpec{Name: fmt.Sprintf("pool%d", i), Addresses: addrs[i], Labels: GenLabels(rt, "plabels"),
			AvoidBuggy: rapid.IntRange(0, 2).Draw(rt, "buggy") == 0,
			AutoAssign: rapid.SampledFrom([]int{0, 0, 0, 1, 2}).Draw(rt, "auto")}
		if o.Alloc && rapid.IntRange(0, 1).Draw(rt, "allocK") == 0 {
			a := &AllocSpec{Priority: rapid.SampledFrom([]int{0, 0, 1, 1, 2, 3, 5}).Draw(rt, "prio")}
			switch rapid.IntRange(0, 5).Draw(rt, "allocShape") {
			case 0: // priority only: matches every service
			case 1:
				a.Namespaces = pickNs(rt, o.Namespaces)
			case 2:
				a.NsSel = GenSels(rt, "nssel", 2)
			case 3:
				a.SvcSel = GenSels(rt, "svcsel", 2)
			case 4:
				a.Namespaces = pickNs(rt, o.Namespaces)
				a.SvcSel = GenSels(rt, "svcsel", 2)
			case 5:
				a.NsSel = GenSels(rt, "nssel", 1)
				a.SvcSel = GenSels(rt, "svcsel", 1)
			}
			p.Alloc = a
		}
		pools = append(pools, p)
	}
	if o.Overlap && len(pools) > 1 && rapid.IntRange(0, 14).Draw(rt, "overlap") == 0 {
		cover := rapid.SampledFrom([]string{"10.0.0.0/24", "10.0.0.0/22", "10.0.0.1-10.0.2.255", "fc00::/120", "fc00::/112", "twin", "twin"}).Draw(rt, "cover")
		if o.NativeBGP {
			cover = "10.0.0.0/22"
		}
		j := rapid.IntRange(0, len(pools)-1).Draw(rt, "coverPool")
		if cover == "twin" {
			// exactly the block of another pool, written in the other notation (CIDR <-> first-last)
			cover = twinSpelling(pools[(j+1)%len(pools)].Addresses[0])
		}
		if rapid.Bool().Draw(rt, "coverFirst") {
			pools[j].Addresses = append([]string{cover}, pools[j].Addresses...)
		} else {
			pools[j].Addresses = append(append([]string(nil), pools[j].Addresses...), cover)
		}
	}
	return pools
}

// twinSpelling spells the addresses of one pool entry in the other notation.
func twinSpelling(spec string) string {
	iv, k, _ := ParseAddrSpec(spec)
	if k == AddrBad || k == AddrExotic {
		return spec
	}
	if strings.Contains(spec, "/") {
		return fmt.Sprintf("%s-%s", iv.Lo, iv.Hi)
	}
	for _, a := range TinyAtoms(true) {
		if a.CIDR != "" && a.Lo == iv.Lo.String() && a.Hi == iv.Hi.String() {
			return a.CIDR
		}
	}
	return spec
}

func pickNs(rt *rapid.T, n int) []string {
	if n <= 0 {
		n = 1
	}
	var out []string
	for i := 0; i < n && i < len(NsNames); i++ {
		if rapid.Bool().Draw(rt, "nsPick") {
			out = append(out, NsNames[i])
		}
	}
	if len(out) == 0 {
		out = []string{NsNames[rapid.IntRange(0, min(n, len(NsNames))-1).Draw(rt, "nsOne")]}
	}
	return out
}

func GenNamespaces(rt *rapid.T, n int) []NamespaceSpec {
	var out []NamespaceSpec
	for i := 0; i < n && i < len(NsNames); i++ {
		out = append(out, NamespaceSpec{Name: NsNames[i], Labels: GenLabels(rt, "nslabels")})
	}
	return out
}

func GenNodes(rt *rapid.T, lo, hi int) []NodeSpec {
	n := rapid.IntRange(lo, hi).Draw(rt, "nnodes")
	var out []NodeSpec
	for i := 0; i < n; i++ {
		out = append(out, NodeSpec{Name: fmt.Sprintf("node%d", i), Labels: GenLabels(rt, "nlabels"), IPs: []string{fmt.Sprintf("192.168.0.%d", i+1)},
			Unavailable: rapid.IntRange(0, 5).Draw(rt, "unavail") == 0}.WithExcl(GenExcl(rt, 6)))
	}
	return out
}

func pickPoolNames(rt *rapid.T, pools []PoolSpec, label string) []string {
	var out []string
	for _, p := range pools {
		if rapid.IntRange(0, 2).Draw(rt, label) == 0 {
			out = append(out, p.Name)
		}
	}
	return out
}

func GenL2Advs(rt *rapid.T, pools []PoolSpec, max int) []L2AdvSpec {
	var out []L2AdvSpec
	for i, k := 0, rapid.IntRange(0, max).Draw(rt, "nl2"); i < k; i++ {
		a := L2AdvSpec{Name: fmt.Sprintf("l2adv%d", i)}
		if rapid.IntRange(0, 1).Draw(rt, "l2nodeK") == 0 {
			a.NodeSel = GenSels(rt, "l2nodesel", 2)
		}
		switch rapid.IntRange(0, 3).Draw(rt, "l2target") {
		case 0, 1:
			a.Pools = pickPoolNames(rt, pools, "l2pool")
		case 2:
			a.PoolSel = GenSels(rt, "l2poolsel", 2)
		}
		if rapid.IntRange(0, 2).Draw(rt, "l2if") == 0 {
			a.Interfaces = rapid.SampledFrom([][]string{{"ifA"}, {"ifA", "ifB"}, {"ifB"}, {"ifC", "ifA"}}).Draw(rt, "ifs")
		}
		out = append(out, a)
	}
	return out
}

func GenPeers(rt *rapid.T, max int, native bool) []PeerSpec {
	var out []PeerSpec
	for i, k := 0, rapid.IntRange(0, max).Draw(rt, "npeers"); i < k; i++ {
		p := PeerSpec{Name: fmt.Sprintf("peer%d", i), MyASN: 64512, ASN: 64512 + uint32(rapid.IntRange(0, 1).Draw(rt, "ebgp")), Address: fmt.Sprintf("192.168.1.%d", i+1)}
		if rapid.IntRange(0, 1).Draw(rt, "peerselK") == 0 {
			p.NodeSel = GenSels(rt, "peernodesel", 2)
		}
		switch rapid.IntRange(0, 3).Draw(rt, "holdK") {
		case 0:
			p.HoldSec = rapid.SampledFrom([]int{3, 30, 90}).Draw(rt, "hold")
		case 1:
			p.Secret = "pw-" + p.Name // password kept in a Secret (a same-named decoy lives in another namespace)
		}
		out = append(out, p)
	}
	return out
}

func GenBGPAdvs(rt *rapid.T, pools []PoolSpec, peers []PeerSpec, max int, native bool) []BGPAdvSpec {
	var out []BGPAdvSpec
	baseLP := rapid.SampledFrom([]uint32{0, 0, 100}).Draw(rt, "baselp")
	for i, k := 0, rapid.IntRange(0, max).Draw(rt, "nbgp"); i < k; i++ {
		a := BGPAdvSpec{Name: fmt.Sprintf("bgpadv%d", i), Agg4: -1, Agg6: -1, LocalPref: baseLP}
		if rapid.IntRange(0, 1).Draw(rt, "bgpnodeK") == 0 {
			a.NodeSel = GenSels(rt, "bgpnodesel", 2)
		}
		switch rapid.IntRange(0, 3).Draw(rt, "bgptarget") {
		case 0, 1:
			a.Pools = pickPoolNames(rt, pools, "bgppool")
		case 2:
			a.PoolSel = GenSels(rt, "bgppoolsel", 2)
		}
		if rapid.IntRange(0, 2).Draw(rt, "agg4K") == 0 {
			a.Agg4 = rapid.SampledFrom([]int{32, 32, 32, 32, 31, 31, 30, 24}).Draw(rt, "agg4")
		}
		if rapid.IntRange(0, 2).Draw(rt, "agg6K") == 0 {
			a.Agg6 = rapid.SampledFrom([]int{128, 128, 128, 128, 127, 127, 126, 64}).Draw(rt, "agg6")
		}
		if rapid.IntRange(0, 5).Draw(rt, "lpK") == 0 {
			a.LocalPref = rapid.SampledFrom([]uint32{50, 100, 200}).Draw(rt, "lp")
		}
		if rapid.IntRange(0, 2).Draw(rt, "commK") == 0 {
			cs := [][]string{{"65000:1"}, {"65000:2", "65000:1"}, {"65001:100"}}
			if !native {
				cs = append(cs, []string{"large:1:2:3"}, []string{"65000:1", "large:1:2:3"})
			}
			a.Communities = rapid.SampledFrom(cs).Draw(rt, "comms")
		}
		if len(peers) > 0 && rapid.IntRange(0, 2).Draw(rt, "peersK") == 0 {
			for _, p := range peers {
				if rapid.Bool().Draw(rt, "advpeer") {
					a.Peers = append(a.Peers, p.Name)
				}
			}
		}
		out = append(out, a)
	}
	return out
}

// GenCluster draws a coherent snapshot (pools disjoint by construction).
func GenCluster(rt *rapid.T, o ClusterOpts) ClusterSpec {
	var c ClusterSpec
	c.Namespaces = GenNamespaces(rt, o.Namespaces)
	c.Pools = GenPools(rt, o)
	c.Nodes = GenNodes(rt, o.MinNodes, o.MaxNodes)
	if o.L2 > 0 {
		c.L2 = GenL2Advs(rt, c.Pools, o.L2)
	}
	if o.Peers > 0 {
		c.Peers = GenPeers(rt, o.Peers, o.NativeBGP)
	}
	if o.BGP > 0 {
		c.BGP = GenBGPAdvs(rt, c.Pools, c.Peers, o.BGP, o.NativeBGP)
	}
	if o.Extra {
		for i, k := 0, rapid.IntRange(0, 3).Draw(rt, "ncomm"); i < k; i++ {
			c.Comms = append(c.Comms, CommunitySpec{Name: fmt.Sprintf("comm%d", i), Aliases: [][2]string{{fmt.Sprintf("alias%d", i), fmt.Sprintf("65010:%d", i+1)}}})
		}
		if !o.NativeBGP {
			for i, k := 0, rapid.IntRange(0, 3).Draw(rt, "nbfd"); i < k; i++ {
				c.BFD = append(c.BFD, BFDSpec{Name: fmt.Sprintf("bfd%d", i), Rx: uint32(rapid.SampledFrom([]int{0, 100, 300}).Draw(rt, "rx"))})
			}
		}
	}
	return c
}
