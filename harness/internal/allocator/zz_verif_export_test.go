//go:build verif

package allocator

// Read-only view of the allocator's bookkeeping for the external harness
// package (the harness must be external to be able to import k8salloc).

type VerifAlloc struct {
	Pool    string
	IPs     []string
	Ports   []Port
	Sharing string
	Backend string
}

type VerifInternals struct {
	Allocated    map[string]VerifAlloc
	ServicesOnIP map[string]map[string]bool
	PortsInUse   map[string]map[Port]string
	SharingKey   map[string][2]string
	PoolIPs      map[string]map[string]int
	PoolIPsV4    map[string]map[string]int
	PoolIPsV6    map[string]map[string]int
}

func copyCount(m map[string]map[string]int) map[string]map[string]int {
	out := map[string]map[string]int{}
	for p, mm := range m {
		for ip, n := range mm {
			if out[p] == nil {
				out[p] = map[string]int{}
			}
			out[p][ip] = n
		}
	}
	return out
}

func VerifDump(a *Allocator) VerifInternals {
	v := VerifInternals{Allocated: map[string]VerifAlloc{}, ServicesOnIP: map[string]map[string]bool{}, PortsInUse: map[string]map[Port]string{}, SharingKey: map[string][2]string{}}
	for k, al := range a.allocated {
		x := VerifAlloc{Pool: al.pool, Ports: append([]Port(nil), al.ports...), Sharing: al.key.sharing, Backend: al.key.backend}
		for _, ip := range al.ips {
			x.IPs = append(x.IPs, ip.String())
		}
		v.Allocated[k] = x
	}
	for ip, m := range a.servicesOnIP {
		if len(m) == 0 {
			continue
		}
		v.ServicesOnIP[ip] = map[string]bool{}
		for s, b := range m {
			v.ServicesOnIP[ip][s] = b
		}
	}
	for ip, m := range a.portsInUse {
		if len(m) == 0 {
			continue
		}
		v.PortsInUse[ip] = map[Port]string{}
		for p, s := range m {
			v.PortsInUse[ip][p] = s
		}
	}
	for ip, k := range a.sharingKeyForIP {
		v.SharingKey[ip] = [2]string{k.sharing, k.backend}
	}
	v.PoolIPs, v.PoolIPsV4, v.PoolIPsV6 = copyCount(a.poolIPsInUse), copyCount(a.poolIPV4InUse), copyCount(a.poolIPV6InUse)
	return v
}
