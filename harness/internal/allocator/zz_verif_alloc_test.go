//go:build verif

package allocator_test

// Allocator API histories (engine (a) of C01, C02, C11).
//
// A generated history of Assign / Allocate / AllocateFromPool /
// AllocateFromPoolForAdditionalFamily / Unassign / SetPools calls, with
// arguments derived from generated Services the way the controller derives
// them, is applied to the real Allocator and to a reference model
// (service -> recorded addresses, pool, ports, sharing attributes). After every
// call the oracles of the three properties run.

import (
	"fmt"
	"math"
	"math/big"
	"net"
	"net/netip"
	"reflect"
	"sort"
	"strings"
	"testing"

	. "go.universe.tf/metallb/internal/allocator"
	"go.universe.tf/metallb/internal/allocator/k8salloc"
	"go.universe.tf/metallb/internal/config"
	"go.universe.tf/metallb/internal/ipfamily"
	"go.universe.tf/metallb/internal/verifcfg"
	vw "go.universe.tf/metallb/internal/verifworld"
	v1 "k8s.io/api/core/v1"
	"pgregory.net/rapid"
)

type allocOp struct {
	Kind    string          `json:"kind"`
	Svc     int             `json:"svc"`
	Pool    int             `json:"pool,omitempty"`
	Addrs   []string        `json:"addrs,omitempty"`
	Cluster *vw.ClusterSpec `json:"cluster,omitempty"`
	Spec    *vw.SvcSpec     `json:"spec,omitempty"`
}

type allocCase struct {
	Cluster vw.ClusterSpec `json:"cluster"`
	Svcs    []vw.SvcSpec   `json:"svcs"`
	Ops     []allocOp      `json:"ops"`
}

var allocClusterOpts = vw.ClusterOpts{MinPools: 1, MaxPools: 5, MaxAtomsPerPool: 3, BigAtoms: true, Namespaces: 2, Alloc: true, Overlap: true}

func genPoolEdit(rt *rapid.T, cur vw.ClusterSpec) vw.ClusterSpec {
	n := vw.ClusterSpec{Namespaces: cur.Namespaces}
	for _, p := range cur.Pools {
		q := p
		q.Addresses = append([]string(nil), p.Addresses...)
		n.Pools = append(n.Pools, q)
	}
	if len(n.Pools) == 0 {
		n.Pools = vw.GenPools(rt, allocClusterOpts)
		return n
	}
	i := rapid.IntRange(0, len(n.Pools)-1).Draw(rt, "editPool")
	switch rapid.IntRange(0, 9).Draw(rt, "editK") {
	case 0: // rename
		n.Pools[i].Name = n.Pools[i].Name + "r"
	case 1: // remove
		n.Pools = append(n.Pools[:i:i], n.Pools[i+1:]...)
	case 2: // shrink
		if len(n.Pools[i].Addresses) > 1 {
			j := rapid.IntRange(0, len(n.Pools[i].Addresses)-1).Draw(rt, "dropAddr")
			n.Pools[i].Addresses = append(n.Pools[i].Addresses[:j:j], n.Pools[i].Addresses[j+1:]...)
		} else {
			n.Pools[i].AvoidBuggy = !n.Pools[i].AvoidBuggy
		}
	case 3: // move one address block to another (possibly new) pool
		if len(n.Pools[i].Addresses) > 1 {
			blk := n.Pools[i].Addresses[0]
			n.Pools[i].Addresses = n.Pools[i].Addresses[1:]
			n.Pools = append(n.Pools, vw.PoolSpec{Name: fmt.Sprintf("split%d", len(n.Pools)), Addresses: []string{blk}})
		}
	case 4: // merge two pools
		if len(n.Pools) > 1 {
			j := (i + 1) % len(n.Pools)
			n.Pools[i].Addresses = append(n.Pools[i].Addresses, n.Pools[j].Addresses...)
			n.Pools = append(n.Pools[:j:j], n.Pools[j+1:]...)
		}
	case 5:
		n.Pools[i].AvoidBuggy = !n.Pools[i].AvoidBuggy
	case 6:
		n.Pools[i].AutoAssign = rapid.IntRange(0, 2).Draw(rt, "auto")
	case 7: // re-target
		if n.Pools[i].Alloc == nil {
			n.Pools[i].Alloc = &vw.AllocSpec{Priority: rapid.IntRange(0, 3).Draw(rt, "prio"), Namespaces: []string{"ns0"}}
		} else {
			n.Pools[i].Alloc = nil
		}
	case 8: // entirely new layout
		n.Pools = vw.GenPools(rt, allocClusterOpts)
	case 9: // namespace labels change (affects namespace selectors)
		n.Namespaces = vw.GenNamespaces(rt, 2)
	}
	if len(n.Pools) == 0 {
		n.Pools = vw.GenPools(rt, allocClusterOpts)
	}
	return n
}

func genAllocCase(rt *rapid.T) allocCase {
	c := allocCase{Cluster: vw.GenCluster(rt, allocClusterOpts)}
	names := func(cl vw.ClusterSpec) []string {
		var out []string
		for _, p := range cl.Pools {
			out = append(out, p.Name)
		}
		return out
	}
	ns := rapid.IntRange(2, 7).Draw(rt, "nsvcs")
	for i := 0; i < ns; i++ {
		s := vw.GenSvc(rt, i, 2, names(c.Cluster))
		s.Type = vw.TypeLoadBalancer
		c.Svcs = append(c.Svcs, s)
	}
	cur := c.Cluster
	specs := append([]vw.SvcSpec(nil), c.Svcs...)
	nops := rapid.IntRange(1, 40).Draw(rt, "nops")
	for i := 0; i < nops; i++ {
		op := allocOp{Svc: rapid.IntRange(0, ns-1).Draw(rt, "svc")}
		switch rapid.IntRange(0, 19).Draw(rt, "opK") {
		case 0, 1, 2, 3, 4, 5:
			op.Kind = "allocate"
		case 6, 7:
			op.Kind = "allocpool"
			op.Pool = rapid.IntRange(0, 5).Draw(rt, "pool")
		case 8, 9, 10:
			op.Kind = "assign"
			for _, f := range specs[op.Svc].Families {
				var c4 []string
				for _, a := range vw.AddrUniverse {
					if strings.Contains(a, ":") == (f == vw.FamilyV6) {
						c4 = append(c4, a)
					}
				}
				op.Addrs = append(op.Addrs, rapid.SampledFrom(c4).Draw(rt, "addr"))
			}
			if rapid.IntRange(0, 9).Draw(rt, "assignOdd") == 0 {
				op.Addrs = append(op.Addrs, rapid.SampledFrom(vw.AddrUniverse).Draw(rt, "addrExtra"))
			}
		case 11:
			op.Kind = "addfamily"
		case 12, 13, 14:
			op.Kind = "unassign"
		case 15, 16:
			op.Kind = "setpools"
			n := genPoolEdit(rt, cur)
			op.Cluster = &n
			cur = n
		case 17, 18:
			op.Kind = "respec"
			n := vw.MutateSvc(rt, specs[op.Svc], 2, names(cur))
			n.Type = vw.TypeLoadBalancer
			op.Spec = &n
			specs[op.Svc] = n
		default:
			op.Kind = "reassign"
		}
		c.Ops = append(c.Ops, op)
	}
	return c
}

// ---- glue: what the controller derives from a Service -------------------------

func portsOf(s vw.SvcSpec) []Port { return k8salloc.Ports(s.Object(0)) }

func backendKeyOf(s vw.SvcSpec) string { return k8salloc.BackendKey(s.Object(0)) }

func familyOf(s vw.SvcSpec) ipfamily.Family {
	n := s.Need()
	switch {
	case n.Dual():
		return ipfamily.DualStack
	case n.V6:
		return ipfamily.IPv6
	}
	return ipfamily.IPv4
}

func toAddrs(ips []net.IP) []netip.Addr {
	var out []netip.Addr
	for _, ip := range ips {
		a, ok := netip.AddrFromSlice(ip)
		if !ok {
			out = append(out, netip.Addr{})
			continue
		}
		out = append(out, a.Unmap())
	}
	return out
}

func toIPs(as []netip.Addr) []net.IP {
	var out []net.IP
	for _, a := range as {
		out = append(out, net.ParseIP(a.String()))
	}
	return out
}

func addrsKey(as []netip.Addr) string {
	var s []string
	for _, a := range as {
		s = append(s, a.String())
	}
	sort.Strings(s)
	return strings.Join(s, ",")
}

// ---- oracles -----------------------------------------------------------------

// checkExclusive is C01's oracle on the model (which mirrors Allocator.IPs).
func checkExclusive(h vw.Holders, tr *vw.Trace) *vw.Violation {
	byAddr := map[netip.Addr][]vw.Holder{}
	keys := make([]string, 0, len(h))
	for k := range h {
		keys = append(keys, k)
	}
	sort.Strings(keys)
	for _, k := range keys {
		for _, a := range h[k].IPs {
			byAddr[a] = append(byAddr[a], h[k])
		}
	}
	for a, hs := range byAddr {
		if len(hs) < 2 {
			continue
		}
		tr.Class("address-shared")
		tr.NonTrivial()
		for i := range hs {
			for j := i + 1; j < len(hs); j++ {
				if !vw.MaySharePermissive(hs[i], hs[j]) {
					sig := "shared-not-allowed"
					x, y := hs[i], hs[j]
					if x.Sharing != "" && x.Sharing == y.Sharing && x.Local != y.Local {
						l := x
						if y.Local {
							l = y
						}
						if len(l.Selector) == 0 {
							sig = "shared:local-with-empty-selector-vs-cluster"
						}
					}
					return vw.Violationf("address-held-twice", "%s is held by %s (sharing=%q ports=%v local=%v selector=%v) and %s (sharing=%q ports=%v local=%v selector=%v) which may not share it",
						a, x.Key, x.Sharing, x.Ports, x.Local, x.Selector, y.Key, y.Sharing, y.Ports, y.Local, y.Selector).WithSig(sig)
				}
			}
		}
	}
	return nil
}

// checkBookkeeping is C11(1): internal maps must be exactly what the surviving assignments imply.
func checkBookkeeping(a *Allocator, h vw.Holders, backend map[string]string) *vw.Violation {
	in := VerifDump(a)
	if len(in.Allocated) != len(h) {
		return vw.Violationf("bookkeeping-allocated", "allocator remembers %d services, model %d", len(in.Allocated), len(h))
	}
	svcOn := map[string]map[string]bool{}
	ports := map[string]map[Port]string{}
	keyOf := map[string][2]string{}
	use := map[string]map[string]int{}
	use4 := map[string]map[string]int{}
	use6 := map[string]map[string]int{}
	for k, m := range h {
		al, ok := in.Allocated[k]
		if !ok {
			return vw.Violationf("bookkeeping-lost", "service %s holds %v in the model but the allocator forgot it", k, m.IPs)
		}
		var got []netip.Addr
		for _, x := range al.IPs {
			got = append(got, vw.MustAddr(x))
		}
		if addrsKey(got) != addrsKey(m.IPs) || al.Pool != m.Pool {
			return vw.Violationf("bookkeeping-alloc", "service %s: allocator has %v from %q, model %v from %q", k, al.IPs, al.Pool, m.IPs, m.Pool)
		}
		for _, ip := range m.IPs {
			s := net.ParseIP(ip.String()).String()
			if svcOn[s] == nil {
				svcOn[s], ports[s] = map[string]bool{}, map[Port]string{}
			}
			svcOn[s][k] = true
			for _, p := range m.Ports {
				ports[s][Port{Proto: p.Proto, Port: p.Port}] = k
			}
			keyOf[s] = [2]string{m.Sharing, backend[k]}
			if use[m.Pool] == nil {
				use[m.Pool], use4[m.Pool], use6[m.Pool] = map[string]int{}, map[string]int{}, map[string]int{}
			}
			use[m.Pool][s]++
			if ip.Is4() {
				use4[m.Pool][s]++
			} else {
				use6[m.Pool][s]++
			}
		}
	}
	if !reflect.DeepEqual(in.ServicesOnIP, svcOn) {
		return vw.Violationf("bookkeeping-services-on-ip", "servicesOnIP %v, surviving assignments imply %v", in.ServicesOnIP, svcOn)
	}
	if !reflect.DeepEqual(in.PortsInUse, ports) {
		return vw.Violationf("bookkeeping-ports", "portsInUse %v, surviving assignments imply %v", in.PortsInUse, ports)
	}
	for ip, k := range in.SharingKey {
		want, ok := keyOf[ip]
		if !ok {
			return vw.Violationf("bookkeeping-ghost-sharing-key", "sharing key %v remembered for %s which nobody holds", k, ip)
		}
		if k != want {
			return vw.Violationf("bookkeeping-sharing-key", "sharing key for %s is %v, holders have %v", ip, k, want)
		}
	}
	for ip := range keyOf {
		if _, ok := in.SharingKey[ip]; !ok {
			return vw.Violationf("bookkeeping-missing-sharing-key", "no sharing key remembered for held address %s", ip)
		}
	}
	drop := func(m map[string]map[string]int) map[string]map[string]int {
		out := map[string]map[string]int{}
		for p, mm := range m {
			if len(mm) > 0 {
				out[p] = mm
			}
		}
		return out
	}
	for _, x := range []struct {
		name      string
		got, want map[string]map[string]int
	}{{"poolIPsInUse", in.PoolIPs, use}, {"poolIPV4InUse", in.PoolIPsV4, use4}, {"poolIPV6InUse", in.PoolIPsV6, use6}} {
		for p, mm := range x.got {
			for ip, n := range mm {
				if n <= 0 {
					return vw.Violationf("bookkeeping-nonpositive-count", "%s[%s][%s] = %d", x.name, p, ip, n)
				}
			}
		}
		if !reflect.DeepEqual(drop(x.got), drop(x.want)) {
			return vw.Violationf("bookkeeping-pool-usage", "%s = %v, surviving assignments imply %v", x.name, drop(x.got), drop(x.want))
		}
	}
	return nil
}

var big62 = new(big.Int).Lsh(big.NewInt(1), 62)

// checkCounters is C11(3).
func checkCounters(a *Allocator, cl vw.ClusterSpec, h vw.Holders, tr *vw.Trace) *vw.Violation {
	for _, p := range cl.Pools {
		c := a.CountersForPool(p.Name)
		in4, in6 := map[netip.Addr]bool{}, map[netip.Addr]bool{}
		for _, m := range h {
			if m.Pool != p.Name {
				continue
			}
			for _, ip := range m.IPs {
				if ip.Is4() {
					in4[ip] = true
				} else {
					in6[ip] = true
				}
			}
		}
		if c.AssignedIPv4 < 0 || c.AssignedIPv6 < 0 || c.AvailableIPv4 < 0 || c.AvailableIPv6 < 0 {
			return vw.Violationf("counter-negative", "pool %s %v reports %+v", p.Name, p.Addresses, c).WithSig(counterSig(p))
		}
		if c.AssignedIPv4 != int64(len(in4)) || c.AssignedIPv6 != int64(len(in6)) {
			return vw.Violationf("counter-assigned", "pool %s reports assigned %d/%d, %d/%d distinct addresses are in use", p.Name, c.AssignedIPv4, c.AssignedIPv6, len(in4), len(in6))
		}
		u4, u6 := p.UsableCount()
		for _, f := range []struct {
			name   string
			usable *big.Int
			sum    int64
		}{{"IPv4", u4, c.AssignedIPv4 + c.AvailableIPv4}, {"IPv6", u6, c.AssignedIPv6 + c.AvailableIPv6}} {
			if f.usable.Cmp(big62) >= 0 {
				tr.Class("counter-saturating")
				if f.sum != math.MaxInt64 && !(f.usable.IsInt64() && f.usable.Int64() == f.sum) {
					return vw.Violationf("counter-saturation", "pool %s %v: %s assigned+available = %d, usable = %s (expected exact or saturated at MaxInt64)", p.Name, p.Addresses, f.name, f.sum, f.usable).WithSig(counterSig(p))
				}
				continue
			}
			if f.usable.Int64() != f.sum {
				return vw.Violationf("counter-total", "pool %s %v avoidBuggy=%v: %s assigned+available = %d, usable addresses = %s", p.Name, p.Addresses, p.AvoidBuggy, f.name, f.sum, f.usable).WithSig(counterSig(p))
			}
		}
	}
	return nil
}

func counterSig(p vw.PoolSpec) string {
	u4, u6 := p.UsableCount()
	big6 := u6.Cmp(big62) >= 0
	ivs, _ := p.Intervals()
	single := false
	for _, iv := range ivs {
		if iv.V4() && iv.Lo == iv.Hi && vw.IsBuggy(iv.Lo) {
			single = true
		}
	}
	_ = u4
	return fmt.Sprintf("counter:saturated=%v,buggy-single-address-block=%v,entries>1=%v", big6, single && p.AvoidBuggy, len(ivs) > 1)
}

// ---- the run -----------------------------------------------------------------

type allocRun struct {
	a    *Allocator
	cl   vw.ClusterSpec
	svcs []vw.SvcSpec
	h    vw.Holders
	bk   map[string]string // backend key each holder was recorded with
	tr   *vw.Trace
	want string // property to judge: "C01", "C02", "C11" or "" for all
}

func (r *allocRun) svcObj(i int) *v1.Service { return r.svcs[i].Object(i) }

func (r *allocRun) setPools(cl vw.ClusterSpec) (*vw.Violation, bool) {
	cfg, err := verifcfg.Config(cl, config.DontValidate)
	if err != nil {
		r.tr.Class("configuration-rejected")
		return nil, false // edit produced an invalid configuration: the reconciler would not deliver it
	}
	// "every address lies in exactly one configured pool": a configuration in which two pools share an address
	// (whatever notation each is written in) must not have been accepted
	for i := range cl.Pools {
		ai, _ := cl.Pools[i].Intervals()
		for j := i + 1; j < len(cl.Pools); j++ {
			bj, _ := cl.Pools[j].Intervals()
			for _, x := range ai {
				for _, y := range bj {
					if x.Overlaps(y) {
						return vw.Violationf("overlapping-pools-accepted", "the configuration was accepted although pools %s %v and %s %v share addresses (%v / %v)", cl.Pools[i].Name, cl.Pools[i].Addresses, cl.Pools[j].Name, cl.Pools[j].Addresses, x, y), false
					}
				}
			}
		}
	}
	r.a.SetPools(cfg.Pools)
	r.cl = cl
	// model: re-home or drop
	for k, m := range r.h {
		p := cl.PoolOf(m.IPs)
		if p == nil {
			delete(r.h, k)
			r.tr.Class("setpools-dropped-allocation")
			r.tr.NonTrivial()
			continue
		}
		if p.Name != m.Pool {
			r.tr.Class("setpools-rehomed-allocation")
			r.tr.NonTrivial()
		}
		m.Pool = p.Name
		r.h[k] = m
	}
	return nil, true
}

// judgeNew checks a successful call that recorded ips for service i (C02 at the API level).
func (r *allocRun) judgeNew(i int, how string, ips []net.IP, pre vw.Holders, hadBefore bool, reqPool string) *vw.Violation {
	s := r.svcs[i]
	as := toAddrs(ips)
	if v := vw.JudgeAssignment(r.cl, s, as, pre, how, hadBefore, reqPool, r.tr); v != nil {
		return v
	}
	if p := r.cl.PoolOf(as); p != nil {
		if got := r.a.Pool(s.Key()); got != p.Name {
			return vw.Violationf("pool-name-wrong", "%s: Allocator.Pool(%s) = %q but %v belongs to %q", how, s.Key(), got, as, p.Name)
		}
	}
	return nil
}

func cloneHolders(h vw.Holders) vw.Holders {
	out := vw.Holders{}
	for k, v := range h {
		out[k] = v
	}
	return out
}

func judge02(want string) bool { return want == "" || want == "C02" }

func runAlloc(c allocCase, tr *vw.Trace, want string) *vw.Violation {
	r := &allocRun{a: New(func(string) {}), svcs: append([]vw.SvcSpec(nil), c.Svcs...), h: vw.Holders{}, bk: map[string]string{}, tr: tr, want: want}
	if v, ok := r.setPools(c.Cluster); !ok {
		if v != nil && judge02(want) {
			return v
		}
		return nil
	}
	judge := func(p string) bool { return want == "" || want == p }
	released := func(pre vw.Holders) []netip.Addr {
		var out []netip.Addr
		seen := map[netip.Addr]bool{}
		for _, m := range pre {
			for _, a := range m.IPs {
				if !seen[a] && len(r.h.On(a, "")) == 0 {
					seen[a] = true
					out = append(out, a)
				}
			}
		}
		return out
	}
	for step, op := range c.Ops {
		i := op.Svc % len(r.svcs)
		s := r.svcs[i]
		k := s.Key()
		pre := cloneHolders(r.h)
		preIPs := addrsKey(toAddrs(r.a.IPs(k)))
		_, had := r.h[k]
		var ips []net.IP
		var err error
		how := ""
		reqPool := ""
		switch op.Kind {
		case "allocate":
			how = "Allocate"
			ips, err = r.a.Allocate(k, r.svcObj(i), familyOf(s), portsOf(s), s.Sharing, backendKeyOf(s))
		case "allocpool":
			how = "AllocateFromPool"
			if len(r.cl.Pools) == 0 {
				continue
			}
			reqPool = r.cl.Pools[op.Pool%len(r.cl.Pools)].Name
			if op.Pool == 5 {
				reqPool = "nosuchpool"
			}
			ips, err = r.a.AllocateFromPool(k, r.svcObj(i), familyOf(s), reqPool, portsOf(s), s.Sharing, backendKeyOf(s))
		case "assign":
			how = "Assign"
			for _, a := range op.Addrs {
				ips = append(ips, net.ParseIP(a))
			}
			err = r.a.Assign(k, r.svcObj(i), ips, portsOf(s), s.Sharing, backendKeyOf(s))
		case "reassign":
			how = "Assign"
			if !had {
				continue
			}
			ips = toIPs(r.h[k].IPs)
			err = r.a.Assign(k, r.svcObj(i), ips, portsOf(s), s.Sharing, backendKeyOf(s))
			tr.Class("reassign-recorded")
		case "addfamily":
			how = "AddFamily"
			if !had || len(r.h[k].IPs) != 1 {
				continue
			}
			var nip net.IP
			nip, err = r.a.AllocateFromPoolForAdditionalFamily(k, r.svcObj(i), toIPs(r.h[k].IPs)[0], r.h[k].Pool, portsOf(s), s.Sharing, backendKeyOf(s))
			if err == nil {
				ips = append(toIPs(r.h[k].IPs), nip)
				tr.Class("additional-family")
			}
		case "unassign":
			r.a.Unassign(k)
			if had {
				tr.Class("release")
			}
			delete(r.h, k)
		case "setpools":
			v, ok := r.setPools(*op.Cluster)
			if ok {
				tr.Class("setpools")
			} else if v != nil && judge02(want) {
				return v
			}
		case "respec":
			op.Spec.NS, op.Spec.Name = s.NS, s.Name
			r.svcs[i] = *op.Spec
			continue
		default:
			continue
		}
		if how != "" {
			if err != nil {
				tr.Class(how + "-refused")
				if strings.Contains(err.Error(), "sharing key") || strings.Contains(err.Error(), "already in use") || strings.Contains(err.Error(), "can't change sharing key") {
					tr.Class("refused-by-sharing-rule")
					tr.NonTrivial()
				}
				// error <=> nothing recorded / nothing changed
				if got := addrsKey(toAddrs(r.a.IPs(k))); got != preIPs && judge("C02") {
					return vw.Violationf("error-but-state-changed", "step %d %s for %s failed (%v) but its recorded addresses changed from [%s] to [%s]", step, how, k, err, preIPs, got)
				}
			} else {
				tr.Class(how + "-ok")
				if got := addrsKey(toAddrs(r.a.IPs(k))); got != addrsKey(toAddrs(ips)) && judge("C02") {
					return vw.Violationf("return-differs-from-record", "step %d %s for %s returned %v but recorded [%s]", step, how, k, ips, got)
				}
				if judge("C02") {
					if v := r.judgeNew(i, how, ips, pre, had, reqPool); v != nil {
						if id := vw.KnownID("C02", v); id != "" {
							tr.Known(id) // listed finding: note it and keep exploring behind it
						} else {
							v.Detail = fmt.Sprintf("step %d: %s", step, v.Detail)
							return v
						}
					}
				}
				as := toAddrs(ips)
				pn := r.a.Pool(k)
				if p := r.cl.PoolOf(as); p != nil {
					pn = p.Name
				}
				if had && addrsKey(pre[k].IPs) == addrsKey(as) && (pre[k].Sharing != s.Sharing || !reflect.DeepEqual(pre[k].Ports, s.Ports)) {
					tr.Class("rekey-in-place")
				}
				r.h[k] = vw.HolderOf(s, as, pn)
				r.bk[k] = backendKeyOf(s)
			}
		}
		// ---- after every single call
		if judge("C01") {
			if v := checkExclusive(r.h, tr); v != nil {
				v.Detail = fmt.Sprintf("after step %d (%s): %s", step, op.Kind, v.Detail)
				return v
			}
		}
		if judge("C11") {
			if v := checkBookkeeping(r.a, r.h, r.bk); v != nil {
				v.Detail = fmt.Sprintf("after step %d (%s): %s", step, op.Kind, v.Detail)
				return v
			}
			if v := checkCounters(r.a, r.cl, r.h, tr); v != nil {
				v.Detail = fmt.Sprintf("after step %d (%s): %s", step, op.Kind, v.Detail)
				return v
			}
			// reuse: every address released by this call and still configured is obtainable at once
			for _, a := range released(pre) {
				p := r.cl.PoolOf([]netip.Addr{a})
				if p == nil {
					continue
				}
				probe := vw.SvcSpec{NS: "ns0", Name: "probe", Ports: []vw.PortSpec{{"TCP", 1}}, Families: []int{vw.FamilyV4}}
				if p.Alloc != nil {
					if len(p.Alloc.Namespaces) > 0 {
						probe.NS = p.Alloc.Namespaces[0]
					} else if len(p.Alloc.NsSel) > 0 {
						for _, ns := range r.cl.Namespaces {
							if p.Alloc.NsSel[0].Matches(ns.Labels) {
								probe.NS = ns.Name
							}
						}
					}
					if len(p.Alloc.SvcSel) > 0 && p.Alloc.SvcSel[0].IsPlain() {
						probe.Labels = map[string]string(p.Alloc.SvcSel[0])
					}
				}
				if !r.cl.Admits(*p, probe) {
					continue
				}
				tr.Class("release-then-reuse-probed")
				tr.NonTrivial()
				if err := r.a.Assign(probe.Key(), probe.Object(99), []net.IP{net.ParseIP(a.String())}, portsOf(probe), "", ""); err != nil {
					return vw.Violationf("released-address-not-reusable", "after step %d (%s): %s was released but a fresh service cannot obtain it: %v", step, op.Kind, a, err)
				}
				r.a.Unassign(probe.Key())
				if v := checkBookkeeping(r.a, r.h, r.bk); v != nil {
					v.Detail = "after reuse probe: " + v.Detail
					return v
				}
			}
		}
	}
	return nil
}

var allocAssumptions = []string{
	"services have >=1 port, cluster IP families consistent with the family policy (Kubernetes admission)",
	"arguments of the allocator calls are derived from the Service as controller/service.go and k8salloc do",
	"pool sets handed to SetPools are the ones config.For accepts",
}

const allocRule = "1..5 disjoint pools dealt from a 14-block tiny v4/v6 universe (+6 large blocks) with avoidBuggyIPs/autoAssign/serviceAllocation, 2..7 services, 1..40 calls of Allocate/AllocateFromPool/Assign/re-Assign/AllocateFromPoolForAdditionalFamily/Unassign/SetPools(edit: rename, remove, shrink, split, merge, re-target, regenerate)/spec change; model = service -> recorded addresses and sharing attributes; "

func TestVerifC01Alloc(t *testing.T) {
	vw.Run(t, vw.Options{Property: "C01", Engine: "alloc-api", Rule: allocRule + "non-trivial = some address was held by >=2 services after a call, or a call was refused by the sharing rule", Assumptions: allocAssumptions},
		genAllocCase, func(c allocCase, tr *vw.Trace) *vw.Violation { return runAlloc(c, tr, "C01") })
}

func TestVerifC02Alloc(t *testing.T) {
	vw.Run(t, vw.Options{Property: "C02", Engine: "alloc-api", Rule: allocRule + "non-trivial = an automatic allocation had >=2 admitting pinned candidate pools, or sharing/refusal occurred", Assumptions: allocAssumptions},
		genAllocCase, func(c allocCase, tr *vw.Trace) *vw.Violation { return runAlloc(c, tr, "C02") })
}

func TestVerifC11Alloc(t *testing.T) {
	vw.Run(t, vw.Options{Property: "C11", Engine: "alloc-api", Rule: allocRule + "non-trivial = a released address was probed for reuse, or SetPools dropped / re-homed an allocation", Assumptions: allocAssumptions},
		genAllocCase, func(c allocCase, tr *vw.Trace) *vw.Violation { return runAlloc(c, tr, "C11") })
}

// Witness of known finding C02-nssel-matches-nothing (shrunk case found by TestVerifC02Alloc).
func TestVerifC02AllocWitness(t *testing.T) {
	c := allocCase{
		Cluster: vw.ClusterSpec{
			Pools:      []vw.PoolSpec{{Name: "pool0", Addresses: []string{"10.0.0.0/30"}, AvoidBuggy: true, Alloc: &vw.AllocSpec{NsSel: []vw.Sel{{"a": "x", "b": "x"}}}}},
			Namespaces: []vw.NamespaceSpec{{Name: "ns0"}, {Name: "ns1"}}},
		Svcs: []vw.SvcSpec{{NS: "ns0", Name: "svc0", Ports: []vw.PortSpec{{"TCP", 80}}, Local: true, Families: []int{vw.FamilyV4}}},
		Ops:  []allocOp{{Kind: "allocpool", Svc: 0}},
	}
	vw.RunFixed(t, vw.Options{Property: "C02", Engine: "alloc-api-witness", Rule: "fixed witness of the known finding"}, []allocCase{c},
		func(c allocCase, tr *vw.Trace) *vw.Violation { return runAlloc(c, tr, "C02") })
}
