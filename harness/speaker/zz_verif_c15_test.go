//go:build verif

package main

// C15 (second engine): passwordForSession hands frr-k8s either the password or the secret
// reference, never both, and never loses the credential.

import (
	"testing"

	"go.universe.tf/metallb/internal/config"
	vw "go.universe.tf/metallb/internal/verifworld"
	v1 "k8s.io/api/core/v1"
	"pgregory.net/rapid"
)

type c15PwCase struct {
	Plain    string `json:"plain"`
	Secret   string `json:"secret"` // password stored in the referenced secret ("" = no secret reference)
	Type     int    `json:"type"`   // 0 native, 1 frr, 2 frr-k8s
	Handling int    `json:"handling"`
}

func TestVerifC15Password(t *testing.T) {
	vw.Run(t, vw.Options{Property: "C15", Engine: "password", Rule: "peer credentials as the configuration layer delivers them (plain password xor secret reference with its resolved password, or none) x BGP backend x secret handling -> passwordForSession; non-trivial = a credential is configured"},
		genC15Pw, runC15Pw)
}

// The same for C14: in FRR mode the neighbor's password is the plain one or the content of the referenced
// secret, whatever the secret handling.
func TestVerifC14Password(t *testing.T) {
	vw.Run(t, vw.Options{Property: "C14", Engine: "password", Rule: "peer credentials as the configuration layer delivers them (plain password xor secret reference with its resolved password, or none) x BGP backend x secret handling -> passwordForSession, which is what NewSession is given; non-trivial = a credential is configured"},
		genC15Pw, runC15Pw)
}

func genC15Pw(rt *rapid.T) c15PwCase {
	{
		{
			c := c15PwCase{Type: rapid.IntRange(0, 2).Draw(rt, "type"), Handling: rapid.IntRange(0, 1).Draw(rt, "handling")}
			switch rapid.IntRange(0, 2).Draw(rt, "cred") {
			case 0:
				c.Plain = rapid.SampledFrom([]string{"pw1", "hunter2"}).Draw(rt, "plain")
			case 1:
				c.Secret = rapid.SampledFrom([]string{"s3cret", "topsecret"}).Draw(rt, "secret")
			}
			return c
		}
	}
}

func runC15Pw(c c15PwCase, tr *vw.Trace) *vw.Violation {
	{
		{
			p := &config.Peer{Name: "peer0", Password: c.Plain}
			if c.Secret != "" {
				p.SecretPassword = c.Secret
				p.PasswordRef = v1.SecretReference{Name: "peersecret", Namespace: "metallb-system"}
			}
			if c.Plain != "" || c.Secret != "" {
				tr.NonTrivial()
			}
			bt := []bgpImplementation{bgpNative, bgpFrr, bgpFrrK8s}[c.Type]
			pw, ref := passwordForSession(p, bt, SecretHandling(c.Handling))
			if pw != "" && ref.Name != "" {
				return vw.Violationf("password-and-secret", "%s/%d: both password %q and secret reference %v handed over", bt, c.Handling, pw, ref)
			}
			want := c.Plain
			if c.Secret != "" {
				want = c.Secret
			}
			switch {
			case bt == bgpFrrK8s && SecretHandling(c.Handling) == SecretPassThrough:
				if pw != c.Plain || (c.Secret != "") != (ref.Name != "") {
					return vw.Violationf("credential-lost", "frr-k8s pass-through: plain %q secret %q -> password %q ref %v", c.Plain, c.Secret, pw, ref)
				}
			default:
				if pw != want || ref.Name != "" {
					return vw.Violationf("credential-lost", "%s/%d: plain %q secret %q -> password %q ref %v", bt, c.Handling, c.Plain, c.Secret, pw, ref)
				}
			}
			return nil
		}
	}
}
