//go:build verif

package main

// C20 (speaker side) — handler atomicity under concurrent delivery, built with -race.
// One goroutine per reconciler (services incl. the re-syncs the others request, configuration,
// nodes) delivers generated events through the real k8s.Listener to the real speaker controller,
// while status-fetcher goroutines query layer-2 status (reading the returned advertisements as
// Layer2StatusReconciler.buildDesiredStatus does), per-service BGP peers and the ARP answer
// decision. Oracle: no race report / panic / deadlock, and the final announcements equal those of
// a serial replay of the same handlers in the order in which they took effect.

import (
	"context"
	"fmt"
	"net"
	"reflect"
	ctrl "sigs.k8s.io/controller-runtime"
	"sync"
	"testing"
	"time"

	"github.com/go-kit/log"
	"go.universe.tf/metallb/internal/config"
	"go.universe.tf/metallb/internal/k8s"
	"go.universe.tf/metallb/internal/k8s/controllers"
	"go.universe.tf/metallb/internal/speakerlist"
	"go.universe.tf/metallb/internal/verifcfg"
	vw "go.universe.tf/metallb/internal/verifworld"
	v1 "k8s.io/api/core/v1"
	discovery "k8s.io/api/discovery/v1"
	"k8s.io/apimachinery/pkg/types"
	"pgregory.net/rapid"
)

type c20Svc struct {
	Svc   int    `json:"svc"`
	IP    string `json:"ip"` // "" = no address, "delete" = deleted
	Local bool   `json:"local"`
	EpOn  int    `json:"ep_on"` // node index hosting the endpoint, -1 none
}

type c20Case struct {
	SvcOps  []c20Svc         `json:"svc_ops"`
	Configs []vw.ClusterSpec `json:"configs"` // delivered in order by the configuration goroutine
	Nodes   []vw.NodeSpec    `json:"nodes"`   // delivered in order by the node goroutine
	Readers int              `json:"readers"`
	Yield   []int            `json:"yield"`
}

func c20Config(rt *rapid.T) vw.ClusterSpec {
	c := vw.ClusterSpec{Pools: []vw.PoolSpec{{Name: "poolA", Addresses: []string{"10.1.0.0/24"}}}}
	for i := 0; i < 2; i++ {
		c.Nodes = append(c.Nodes, vw.NodeSpec{Name: fmt.Sprintf("node%d", i), IPs: []string{fmt.Sprintf("192.168.0.%d", i+1)}})
	}
	a := vw.L2AdvSpec{Name: "l2"}
	if rapid.IntRange(0, 1).Draw(rt, "l2if") == 0 {
		a.Interfaces = rapid.SampledFrom([][]string{{"ifA"}, {"ifA", "ifB"}, {"ifB"}}).Draw(rt, "ifs")
	}
	c.L2 = []vw.L2AdvSpec{a}
	for i, k := 0, rapid.IntRange(0, 2).Draw(rt, "npeers"); i < k; i++ {
		c.Peers = append(c.Peers, vw.PeerSpec{Name: fmt.Sprintf("peer%d", i), MyASN: 64512, ASN: 64512, Address: fmt.Sprintf("192.168.1.%d", i+1)})
	}
	if rapid.Bool().Draw(rt, "bgp") {
		c.BGP = []vw.BGPAdvSpec{{Name: "bgp", Agg4: rapid.SampledFrom([]int{32, 28}).Draw(rt, "agg"), Agg6: -1}}
	}
	return c
}

func genC20(rt *rapid.T) c20Case {
	c := c20Case{Readers: rapid.IntRange(1, 3).Draw(rt, "readers")}
	for i, n := 0, rapid.IntRange(5, 40).Draw(rt, "nsvcops"); i < n; i++ {
		op := c20Svc{Svc: rapid.IntRange(0, 2).Draw(rt, "svc"), Local: rapid.IntRange(0, 3).Draw(rt, "local") == 0, EpOn: rapid.SampledFrom([]int{0, 0, 0, 1, -1}).Draw(rt, "ep")}
		op.IP = rapid.SampledFrom([]string{"10.1.0.1", "10.1.0.1", "10.1.0.2", "10.1.0.3", "", "delete"}).Draw(rt, "ip")
		c.SvcOps = append(c.SvcOps, op)
	}
	for i, n := 0, rapid.IntRange(1, 8).Draw(rt, "nconfigs"); i < n; i++ {
		c.Configs = append(c.Configs, c20Config(rt))
	}
	for i, n := 0, rapid.IntRange(0, 6).Draw(rt, "nnodeops"); i < n; i++ {
		j := rapid.IntRange(0, 1).Draw(rt, "node")
		c.Nodes = append(c.Nodes, vw.NodeSpec{Name: fmt.Sprintf("node%d", j), IPs: []string{fmt.Sprintf("192.168.0.%d", j+1)}, Unavailable: rapid.IntRange(0, 3).Draw(rt, "unavail") == 0})
	}
	c.Yield = rapid.SliceOfN(rapid.IntRange(0, 3), 8, 8).Draw(rt, "yield")
	return c
}

type c20Entry struct {
	Kind string // S (service handler), C (config), N (node), U (store update by the service goroutine)
	Idx  int
	Key  string
}

type c20World struct {
	h     *k8s.VerifHandlers
	sim   *spkSim
	store map[string]*c20Svc // current desired service per key (only the service goroutine touches it)
	logMu sync.Mutex
	log   []c20Entry
	cfgs  []*config.Config
}

func c20Key(i int) string { return fmt.Sprintf("ns0/svc%d", i) }

func (w *c20World) svcObj(op *c20Svc, nodes int) (*v1.Service, []discovery.EndpointSlice) {
	sp := vw.SvcSpec{NS: "ns0", Name: fmt.Sprintf("svc%d", op.Svc), Ports: []vw.PortSpec{{Proto: "TCP", Port: 80}}, Families: []int{vw.FamilyV4}, Local: op.Local}
	o := sp.Object(op.Svc)
	if op.IP != "" {
		o.Status.LoadBalancer.Ingress = []v1.LoadBalancerIngress{{IP: op.IP}}
	}
	var eps []discovery.EndpointSlice
	if op.EpOn >= 0 {
		eps = vw.SlicesCR([]vw.SliceSpec{{Name: "s", NS: "ns0", Svc: sp.Name, Endpoints: []vw.EndpointSpec{{Addrs: []string{"10.244.0.1"}, Node: fmt.Sprintf("node%d", op.EpOn), Ready: 1}}}})
	}
	return o, eps
}

func newC20World(c c20Case) (*c20World, error) {
	w := &c20World{store: map[string]*c20Svc{}}
	sl := &vfSpeakerList{info: speakerlist.SpeakerListInfo{Disabled: true, Nodes: map[string]bool{}}}
	w.sim = newSpkSim(vw.NewWorld(), sl, false)
	for _, cl := range c.Configs {
		cfg, err := verifcfg.Config(cl, config.DontValidate)
		if err != nil {
			return nil, err
		}
		w.cfgs = append(w.cfgs, cfg)
	}
	return w, nil
}

func (w *c20World) logf(e c20Entry) {
	w.logMu.Lock()
	w.log = append(w.log, e)
	w.logMu.Unlock()
}

// handlers are invoked through the Listener; the effect log is appended inside its critical section.
func (w *c20World) wire(curSvc *string, curCfg, curNode *int) {
	c := w.sim.c
	lis := w.sim.lis
	lis.ServiceChanged = func(l log.Logger, name string, svc *v1.Service, eps []discovery.EndpointSlice) controllers.SyncState {
		w.logf(c20Entry{Kind: "S", Key: *curSvc})
		return c.SetBalancer(l, name, svc, eps)
	}
	lis.ConfigChanged = func(l log.Logger, cfg *config.Config) controllers.SyncState {
		w.logf(c20Entry{Kind: "C", Idx: *curCfg})
		return c.SetConfig(l, cfg)
	}
	lis.NodeChanged = func(l log.Logger, n *v1.Node) controllers.SyncState {
		w.logf(c20Entry{Kind: "N", Idx: *curNode})
		return c.SetNode(l, n)
	}
	// events are delivered through the handlers the real k8s.New hands to the reconcilers
	h, err := k8s.VerifWire(true)
	if err != nil {
		panic("verif-inconclusive: cannot wire k8s.New without an API server: " + err.Error())
	}
	w.h = h
	k8s.VerifSetCallbacks(k8s.Listener{ServiceChanged: lis.ServiceChanged, ConfigChanged: lis.ConfigChanged, NodeChanged: lis.NodeChanged})
}

func (w *c20World) deliverSvc(key string, cur *string) {
	*cur = key
	op := w.store[key]
	if op == nil || op.IP == "delete" {
		w.h.Service(log.NewNopLogger(), key, nil, nil)
		return
	}
	o, eps := w.svcObj(op, 2)
	w.h.Service(log.NewNopLogger(), key, o, eps)
}

func c20Final(w *c20World) spkSnapshot {
	w.sim.ann.VerifDrainSpam()
	return w.sim.snapshot([]string{c20Key(0), c20Key(1), c20Key(2)})
}

func runC20(c c20Case, tr *vw.Trace) *vw.Violation {
	w, err := newC20World(c)
	if err != nil {
		return nil // generated configuration rejected: nothing to deliver
	}
	var curSvc string
	var curCfg, curNode int
	w.wire(&curSvc, &curCfg, &curNode)
	reloadReq := make(chan struct{}, 1024)
	var wg sync.WaitGroup
	stop := make(chan struct{})
	svcDone := make(chan struct{})
	yield := func(i int) {
		for k := 0; k < c.Yield[i%len(c.Yield)]; k++ {
			time.Sleep(time.Microsecond)
		}
	}
	// service reconciler goroutine: its own events plus the full re-syncs the others ask for
	go func() {
		defer close(svcDone)
		resync := func() {
			for i := 0; i < 3; i++ {
				if _, ok := w.store[c20Key(i)]; ok {
					w.deliverSvc(c20Key(i), &curSvc)
				}
			}
		}
		for i := range c.SvcOps {
			op := c.SvcOps[i]
			key := c20Key(op.Svc)
			w.store[key] = &op
			w.logf(c20Entry{Kind: "U", Idx: i, Key: key})
			w.deliverSvc(key, &curSvc)
			yield(i)
			select {
			case <-reloadReq:
				w.logf(c20Entry{Kind: "R"})
				resync()
			default:
			}
		}
		// drain pending re-sync requests until the other deliverers are done
		for {
			select {
			case <-reloadReq:
				w.logf(c20Entry{Kind: "R"})
				resync()
			case <-stop:
				for len(reloadReq) > 0 {
					<-reloadReq
					w.logf(c20Entry{Kind: "R"})
					resync()
				}
				return
			}
		}
	}()
	wg.Add(2)
	go func() { // configuration reconciler
		defer wg.Done()
		for i := range w.cfgs {
			curCfg = i
			if w.h.Config(log.NewNopLogger(), w.cfgs[i]) == controllers.SyncStateReprocessAll {
				reloadReq <- struct{}{}
			}
			yield(i + 3)
		}
	}()
	go func() { // node reconciler: the real NodeReconciler reads the node from its client and calls the wired handler
		defer wg.Done()
		nodeStore := vw.NewWorld() // only this goroutine touches it
		nodeRec := &controllers.NodeReconciler{Client: nodeStore, Logger: log.NewNopLogger(), Handler: w.h.Node, NodeName: spkMe,
			ForceReload: func() { reloadReq <- struct{}{} }}
		for i := range c.Nodes {
			curNode = i
			n := c.Nodes[i].CR()
			nodeStore.Nodes = []*v1.Node{&n}
			_, _ = nodeRec.Reconcile(context.Background(), ctrl.Request{NamespacedName: types.NamespacedName{Name: n.Name}})
			yield(i + 5)
		}
	}()
	// status fetchers
	var rwg sync.WaitGroup
	rstop := make(chan struct{})
	for r := 0; r < c.Readers; r++ {
		rwg.Add(1)
		go func(r int) {
			defer rwg.Done()
			for n := 0; ; n++ {
				select {
				case <-rstop:
					return
				default:
				}
				k := n % 3
				advs := w.sim.c.layer2StatusFetchFunc(types.NamespacedName{Namespace: "ns0", Name: fmt.Sprintf("svc%d", k)})
				if len(advs) > 0 { // as Layer2StatusReconciler.buildDesiredStatus reads it
					adv := advs[0]
					if !adv.IsAllInterfaces() {
						for inf := range adv.GetInterfaces() {
							_ = inf
						}
					}
				}
				_ = w.sim.c.bgpPeersFetcher(c20Key(k))
				_ = w.sim.ann.VerifAnswers(net.ParseIP("10.1.0.1"), "ifA")
				if n%8 == 0 {
					time.Sleep(time.Microsecond)
				}
			}
		}(r)
	}
	done := make(chan struct{})
	go func() { wg.Wait(); close(stop); <-svcDone; close(done) }()
	select {
	case <-done:
	case <-time.After(60 * time.Second):
		panic("verif-inconclusive: watchdog: concurrent delivery did not finish within 60 s (deadlock?)")
	}
	close(rstop)
	rwg.Wait()
	got := c20Final(w)
	// ---- serial replay in effect order on a fresh instance
	w2, _ := newC20World(c)
	var cs string
	var cc, cn int
	w2.wire(&cs, &cc, &cn)
	interleaved := false
	lastKind := ""
	switches := 0
	for _, e := range w.log {
		if e.Kind != lastKind && (e.Kind == "C" || e.Kind == "N" || lastKind == "C" || lastKind == "N") {
			switches++
		}
		lastKind = e.Kind
		switch e.Kind {
		case "U":
			op := c.SvcOps[e.Idx]
			w2.store[e.Key] = &op
		case "S":
			w2.deliverSvc(e.Key, &cs)
		case "C":
			cc = e.Idx
			w2.h.Config(log.NewNopLogger(), w2.cfgs[e.Idx])
		case "N":
			cn = e.Idx
			n := c.Nodes[e.Idx].CR()
			w2.h.Node(log.NewNopLogger(), &n)
		}
	}
	if switches > 2 {
		interleaved = true
		tr.Class("handlers-interleaved")
		tr.NonTrivial()
	}
	_ = interleaved
	want := c20Final(w2)
	if !reflect.DeepEqual(got.L2, want.L2) || !reflect.DeepEqual(normalize(got.Sessions), normalize(want.Sessions)) || !reflect.DeepEqual(got.PeersFor, want.PeersFor) {
		return vw.Violationf("concurrent-differs-from-serial", "after concurrent delivery the speaker holds L2=%v sessions=%v peers=%v; running the same handlers one at a time in the order they took effect gives L2=%v sessions=%v peers=%v; effect order %v", got.L2, got.Sessions, got.PeersFor, want.L2, want.Sessions, want.PeersFor, w.log)
	}
	return nil
}

func TestVerifC20Speaker(t *testing.T) {
	vw.Run(t, vw.Options{Property: "C20", Engine: "speaker-concurrent",
		Rule:        "one goroutine per reconciler delivers 5..40 service events (3 services sharing / changing / losing addresses, endpoints, deletion), 1..8 configurations (L2 interface lists, peers, BGP aggregation) and 0..6 node events through the real Listener, re-syncs requested by configuration/node handlers are executed by the service goroutine; 1..3 fetcher goroutines read layer-2 status, per-service peers and the ARP decision; built with -race; final state compared with a serial replay in effect order; non-trivial = configuration/node handlers interleaved with service handlers (effect order is not a per-goroutine concatenation)",
		Assumptions: []string{"interleavings are produced by the Go scheduler, not enumerated; the race detector generalises each run to executions with the same happens-before graph", "memberlist disabled; the speaker under test is node0"}},
		genC20, runC20)
}

// The same concurrent workloads decide C05 for concurrently delivering reconcilers: at rest the routes on every
// session and the per-service peers are those of the serial replay in effect order (a node event that re-publishes
// the advertisements must not overwrite what a service event published meanwhile).
func TestVerifC05Concurrent(t *testing.T) {
	vw.Run(t, vw.Options{Property: "C05", Engine: "speaker-concurrent",
		Rule:        "the concurrent workloads of C20 on the speaker (service, configuration and node workers plus status fetchers, through the handlers wired by k8s.New, built with -race): no data race, and the per-session routes, per-service peers and layer-2 announcements at rest equal the serial replay in effect order; non-trivial as in C20",
		Assumptions: []string{"interleavings are produced by the Go scheduler, not enumerated"}},
		genC20, runC20)
}
