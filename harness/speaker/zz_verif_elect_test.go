//go:build verif

package main

// C04 (exactly one eligible layer-2 announcer), C12 (minimal failover, metamorphic)
// and C10 (BGP announcement eligibility). One real layer2Controller / bgpController
// per node of a generated cluster view; closed-form oracles from the statements.

import (
	"fmt"
	"net"
	"sort"
	"strings"
	"testing"

	"github.com/go-kit/log"
	"go.universe.tf/metallb/internal/config"
	"go.universe.tf/metallb/internal/speakerlist"
	"go.universe.tf/metallb/internal/verifcfg"
	vw "go.universe.tf/metallb/internal/verifworld"
	v1 "k8s.io/api/core/v1"
	"pgregory.net/rapid"
)

type vfSpeakerList struct{ info speakerlist.SpeakerListInfo }

func (s *vfSpeakerList) UsableSpeakers() speakerlist.SpeakerListInfo { return s.info }
func (s *vfSpeakerList) Rejoin()                                     {}

// vfView is a cluster view shared by all speakers.
type vfView struct {
	Nodes      []vw.NodeSpec     `json:"nodes"`
	Alive      []bool            `json:"alive"` // speaker alive per node (memberlist)
	GhostAlive bool              `json:"ghost_alive,omitempty"`
	Disabled   bool              `json:"memberlist_disabled,omitempty"`
	Ignore     bool              `json:"ignore_exclude_lb,omitempty"`
	L2         []vw.L2AdvSpec    `json:"l2"`
	BGP        []vw.BGPAdvSpec   `json:"bgp,omitempty"`
	PoolLabels map[string]string `json:"pool_labels,omitempty"`
	Local      bool              `json:"local,omitempty"`
	Slices     []vw.SliceSpec    `json:"slices"`
	IPs        []string          `json:"ips"`
}

func (v vfView) cluster() vw.ClusterSpec {
	return vw.ClusterSpec{
		Pools: []vw.PoolSpec{{Name: "pool0", Addresses: []string{"10.0.0.0/28", "fc00::/124"}, Labels: v.PoolLabels}, {Name: "other", Addresses: []string{"10.0.9.0/28"}}},
		Nodes: v.Nodes, L2: v.L2, BGP: v.BGP}
}

func (v vfView) nodeMap() map[string]*v1.Node {
	m := map[string]*v1.Node{}
	for _, n := range v.Nodes {
		cr := n.CR()
		m[n.Name] = &cr
	}
	return m
}

func (v vfView) svc(name string) *v1.Service {
	s := vw.SvcSpec{NS: "ns0", Name: name, Ports: []vw.PortSpec{{Proto: "TCP", Port: 80}}, Local: v.Local, Families: []int{vw.FamilyV4}}
	obj := s.Object(0)
	// the recorded addresses; every service but svc0 records them in another spelling of the same address (the API
	// accepts any): upper-case IPv6, IPv4-mapped IPv4
	for _, ip := range v.IPs {
		if name != "svc0" {
			if strings.Contains(ip, ":") {
				ip = strings.ToUpper(ip)
			} else {
				ip = "::ffff:" + ip
			}
		}
		obj.Status.LoadBalancer.Ingress = append(obj.Status.LoadBalancer.Ingress, v1.LoadBalancerIngress{IP: ip})
	}
	return obj
}

func (v vfView) ips() []net.IP {
	var out []net.IP
	for _, s := range v.IPs {
		out = append(out, net.ParseIP(s))
	}
	return out
}

func (v vfView) targetsPool0(names []string, sels []vw.Sel) bool {
	if len(names) == 0 && len(sels) == 0 {
		return true
	}
	for _, n := range names {
		if n == "pool0" {
			return true
		}
	}
	for _, s := range sels {
		if s.Matches(v.PoolLabels) {
			return true
		}
	}
	return false
}

// l2Eligible is the closed form of C04.
func (v vfView) l2Eligible() map[string]bool {
	hasEp := false
	local := map[string]bool{}
	for _, s := range v.Slices {
		for _, e := range s.Endpoints {
			if e.CanServe() {
				hasEp = true
				if e.Node != "" {
					local[e.Node] = true
				}
			}
		}
	}
	out := map[string]bool{}
	for i, n := range v.Nodes {
		live := v.Disabled || v.Alive[i]
		selected := false
		for _, a := range v.L2 {
			if v.targetsPool0(a.Pools, a.PoolSel) && vw.AnyMatches(a.NodeSel, n.AllLabels()) {
				selected = true
			}
		}
		if live && selected && !n.Unavailable && (!n.Excluded || v.Ignore) && hasEp && (!v.Local || local[n.Name]) {
			out[n.Name] = true
		}
	}
	return out
}

// l2Decisions evaluates the real ShouldAnnounce on every node of the view.
func (v vfView) l2Decisions(svcName string) (map[string]string, error) {
	cfg, err := verifcfg.Config(v.cluster(), config.DontValidate)
	if err != nil {
		return nil, err
	}
	pool := cfg.Pools.ByName["pool0"]
	sl := &vfSpeakerList{info: speakerlist.SpeakerListInfo{Disabled: v.Disabled, Nodes: map[string]bool{}}}
	for i, n := range v.Nodes {
		if v.Alive[i] {
			sl.info.Nodes[n.Name] = true
		}
	}
	if v.GhostAlive {
		sl.info.Nodes["ghost-node"] = true
	}
	nodes := v.nodeMap()
	eps := vw.SlicesCR(v.Slices)
	out := map[string]string{}
	for _, n := range v.Nodes {
		c := &layer2Controller{myNode: n.Name, ignoreExcludeLB: v.Ignore, sList: sl}
		out[n.Name] = c.ShouldAnnounce(log.NewNopLogger(), "ns0/"+svcName, v.ips(), pool, v.svc(svcName), eps, nodes)
	}
	return out, nil
}

func announcers(d map[string]string) []string {
	var out []string
	for n, r := range d {
		if r == "" {
			out = append(out, n)
		}
	}
	sort.Strings(out)
	return out
}

func nodeNames(ns []vw.NodeSpec) []string {
	var out []string
	for _, n := range ns {
		out = append(out, n.Name)
	}
	return out
}

func genView(rt *rapid.T, maxNodes int) vfView {
	v := vfView{PoolLabels: vw.GenLabels(rt, "plabels")}
	n := rapid.IntRange(1, maxNodes).Draw(rt, "nnodes")
	for i := 0; i < n; i++ {
		v.Nodes = append(v.Nodes, vw.NodeSpec{Name: fmt.Sprintf("node%d", i), Labels: vw.GenLabels(rt, "nlabels"), IPs: []string{fmt.Sprintf("192.168.0.%d", i+1)},
			Unavailable: rapid.IntRange(0, 5).Draw(rt, "unavail") == 0}.WithExcl(vw.GenExcl(rt, 6)))
		v.Alive = append(v.Alive, rapid.IntRange(0, 4).Draw(rt, "alive") != 0)
	}
	v.GhostAlive = rapid.IntRange(0, 9).Draw(rt, "ghost") == 0
	v.Disabled = rapid.IntRange(0, 3).Draw(rt, "mlDisabled") == 0
	v.Ignore = rapid.IntRange(0, 3).Draw(rt, "ignore") == 0
	for i, k := 0, rapid.IntRange(0, 3).Draw(rt, "nl2"); i < k; i++ {
		a := vw.L2AdvSpec{Name: fmt.Sprintf("l2adv%d", i)}
		if rapid.IntRange(0, 1).Draw(rt, "l2nodeK") == 0 {
			a.NodeSel = vw.GenSels(rt, "l2nodesel", 2)
		}
		switch rapid.IntRange(0, 4).Draw(rt, "l2target") {
		case 0:
			a.Pools = []string{"other"}
		case 1:
			a.PoolSel = vw.GenSels(rt, "l2poolsel", 2)
		case 2:
			a.Pools = []string{"pool0"}
		}
		v.L2 = append(v.L2, a)
	}
	split := len(v.L2) == 0 && len(v.Nodes) >= 3
	if split {
		// scenario: the pool is advertised by two advertisements that select different (possibly overlapping) node
		// sets and by nothing else, so the set of candidates is the union of what several advertisements select
		v.L2 = append(v.L2, vw.L2AdvSpec{Name: "l2splitA", Pools: []string{"pool0"}, NodeSel: []vw.Sel{{"a": "x"}}},
			vw.L2AdvSpec{Name: "l2splitB", Pools: []string{"pool0"}, NodeSel: []vw.Sel{{"b": "x"}, {"a": "y"}}})
	}
	v.Local = rapid.Bool().Draw(rt, "local")
	v.Slices = vw.GenSlices(rt, "ns0", "svc0", nodeNames(v.Nodes), 3, 3, false)
	if rapid.IntRange(0, 1).Draw(rt, "healthyBias") == 0 {
		// half of the views: a catch-all advertisement and serving endpoints on most nodes, so that several nodes compete
		if !split {
			v.L2 = append(v.L2, vw.L2AdvSpec{Name: "l2catchall", Pools: []string{"pool0"}})
		}
		s := vw.SliceSpec{Name: "svc0-healthy", NS: "ns0", Svc: "svc0"}
		for i, n := range v.Nodes {
			if rapid.IntRange(0, 3).Draw(rt, "epHere") != 0 {
				s.Endpoints = append(s.Endpoints, vw.EndpointSpec{Addrs: []string{fmt.Sprintf("10.244.9.%d", i+1)}, Node: n.Name, Ready: vw.Tri(rapid.SampledFrom([]int{0, 1, 1, 2}).Draw(rt, "hReady")), Serving: vw.Tri(rapid.SampledFrom([]int{0, 1, 2}).Draw(rt, "hServing")), Term: vw.Tri(rapid.SampledFrom([]int{0, 0, 1, 2}).Draw(rt, "hTerm"))})
			}
		}
		v.Slices = append(v.Slices, s)
	}
	v.IPs = []string{rapid.SampledFrom([]string{"10.0.0.1", "10.0.0.2", "10.0.0.7", "fc00::1", "fc00::a"}).Draw(rt, "ip")}
	if rapid.IntRange(0, 3).Draw(rt, "dual") == 0 {
		v.IPs = append(v.IPs, rapid.SampledFrom([]string{"fc00::2", "10.0.0.3"}).Draw(rt, "ip2"))
	}
	return v
}

// judgeView is C04 on one view; returns the announcer ("" if none) and the eligible set.
func judgeView(v vfView, tr *vw.Trace) (string, map[string]bool, *vw.Violation) {
	d, err := v.l2Decisions("svc0")
	if err != nil {
		tr.Class("view-config-rejected")
		return "", nil, nil
	}
	el := v.l2Eligible()
	an := announcers(d)
	if len(el) >= 2 {
		tr.Class("several-eligible")
	}
	if len(el) != len(v.Nodes) {
		tr.Class("some-node-ineligible")
	}
	want := 0
	if len(el) > 0 {
		want = 1
	}
	if len(an) != want {
		return "", el, vw.Violationf("l2-announcer-count", "%d node(s) announce %v (%v) but eligible nodes are %v: expected exactly %d", len(an), v.IPs, an, keysOf(el), want)
	}
	if want == 1 && !el[an[0]] {
		return "", el, vw.Violationf("l2-announcer-not-eligible", "node %s announces %v but is not eligible (eligible: %v)", an[0], v.IPs, keysOf(el))
	}
	// every service using the address elects the same node
	d2, _ := v.l2Decisions("another-service")
	if fmt.Sprint(announcers(d2)) != fmt.Sprint(an) {
		return "", el, vw.Violationf("l2-services-disagree", "services sharing %v elect %v and %v", v.IPs, an, announcers(d2))
	}
	// ... also a single-stack service holding only the first address (the election key is the first address)
	if len(v.IPs) > 1 {
		v1 := v
		v1.IPs = v.IPs[:1]
		d3, _ := v1.l2Decisions("single-stack-sharer")
		if fmt.Sprint(announcers(d3)) != fmt.Sprint(an) {
			return "", el, vw.Violationf("l2-services-disagree", "a dual-stack service on %v elects %v, a service holding only %s elects %v", v.IPs, an, v.IPs[0], announcers(d3))
		}
	}
	// ... and services holding the same addresses in another order, or only the second one
	if len(v.IPs) > 1 {
		v2 := v
		v2.IPs = []string{v.IPs[1], v.IPs[0]}
		d4, _ := v2.l2Decisions("same-pair-other-order")
		if fmt.Sprint(announcers(d4)) != fmt.Sprint(an) {
			viol := vw.Violationf("l2-services-disagree", "a dual-stack service recorded as %v elects %v, one recorded as %v elects %v", v.IPs, an, v2.IPs, announcers(d4)).WithSig("l2-services-disagree:same-pair-other-order")
			if id := vw.KnownID("C04", viol); id != "" {
				tr.Known(id)
			} else {
				return "", el, viol
			}
		}
		v3 := v
		v3.IPs = v.IPs[1:]
		d5, _ := v3.l2Decisions("second-address-sharer")
		if fmt.Sprint(announcers(d5)) != fmt.Sprint(an) {
			viol := vw.Violationf("l2-services-disagree", "a dual-stack service on %v elects %v, a service holding only %s elects %v", v.IPs, an, v.IPs[1], announcers(d5)).WithSig("l2-services-disagree:sharer-of-second-address")
			if id := vw.KnownID("C04", viol); id != "" {
				tr.Known(id)
			} else {
				return "", el, viol
			}
		}
	}
	if want == 1 {
		return an[0], el, nil
	}
	return "", el, nil
}

func keysOf(m map[string]bool) []string {
	var out []string
	for k, v := range m {
		if v {
			out = append(out, k)
		}
	}
	sort.Strings(out)
	return out
}

// Witness of the known findings about the election key (committed under /verif/witness).
func TestVerifC04Witness(t *testing.T) {
	vw.RunWitnesses(t, vw.Options{Property: "C04", Engine: "views-witness", Rule: "committed witness views of the known findings"}, "TestVerifC04Views",
		func(v vfView, tr *vw.Trace) *vw.Violation {
			_, _, viol := judgeView(v, tr)
			return viol
		})
}

func TestVerifC04Views(t *testing.T) {
	vw.Run(t, vw.Options{Property: "C04", Engine: "views",
		Rule:        "cluster views (1..5 nodes with speaker alive / NetworkUnavailable / exclude label / labels, ghost speaker, memberlist on/off, ignore-exclude flag, 0..3 L2 advertisements with node and pool selectors, both traffic policies, 0..3 endpoint slices with ready/serving in {nil,true,false} and node names incl. missing, v4/v6/dual addresses); the real ShouldAnnounce is evaluated on every node; non-trivial = >=2 eligible nodes, or eligible set != node set",
		Assumptions: []string{"all speakers share the view (same nodes, membership, configuration, endpoints)"}},
		func(rt *rapid.T) vfView { return genView(rt, 5) },
		func(v vfView, tr *vw.Trace) *vw.Violation {
			_, el, viol := judgeView(v, tr)
			if len(el) >= 2 || (el != nil && len(el) != len(v.Nodes)) {
				tr.NonTrivial()
			}
			return viol
		})
}

// ---- C12: metamorphic ----------------------------------------------------------

type vfPerturb struct {
	View   vfView `json:"view"`
	Remove []int  `json:"remove"` // per node: 0 keep, 1 speaker dies, 2 network unavailable, 3 exclude label
	Add    int    `json:"add"`
	PermN  []int  `json:"perm_nodes"`
	PermL2 []int  `json:"perm_l2"`
	PermS  []int  `json:"perm_slices"`
}

func vfPerm(rt *rapid.T, n int, label string) []int {
	idx := make([]int, n)
	for i := range idx {
		idx[i] = i
	}
	if n < 2 {
		return idx
	}
	return rapid.Permutation(idx).Draw(rt, label)
}

func vfApply[T any](in []T, p []int) []T {
	if len(p) != len(in) {
		return in
	}
	out := make([]T, len(in))
	for i, j := range p {
		out[i] = in[j]
	}
	return out
}

func genPerturb(rt *rapid.T) vfPerturb {
	v := genView(rt, 5)
	// bias towards views with several eligible nodes
	if rapid.IntRange(0, 1).Draw(rt, "allAlive") == 0 {
		for i := range v.Alive {
			v.Alive[i] = true
			v.Nodes[i].Unavailable, v.Nodes[i].Excluded = false, false
		}
		v.L2 = []vw.L2AdvSpec{{Name: "l2all"}}
		v.Local = false
		v.Slices = []vw.SliceSpec{{Name: "s", NS: "ns0", Svc: "svc0", Endpoints: []vw.EndpointSpec{{Addrs: []string{"10.244.0.1"}, Node: "node0", Ready: 1}}}}
	}
	p := vfPerturb{View: v}
	for range v.Nodes {
		p.Remove = append(p.Remove, rapid.SampledFrom([]int{0, 0, 0, 1, 2, 3}).Draw(rt, "remove"))
	}
	p.Add = rapid.IntRange(0, 2).Draw(rt, "add")
	p.PermN = vfPerm(rt, len(v.Nodes), "permNodes")
	p.PermL2 = vfPerm(rt, len(v.L2), "permL2")
	p.PermS = vfPerm(rt, len(v.Slices), "permSlices")
	return p
}

func runPerturb(p vfPerturb, tr *vw.Trace) *vw.Violation {
	v := p.View
	a, E, viol := judgeView(v, tr)
	if viol != nil || E == nil {
		return viol
	}
	// (1) listing order does not matter
	pv := v
	pv.Nodes, pv.Alive = vfApply(v.Nodes, p.PermN), vfApply(v.Alive, p.PermN)
	pv.L2 = vfApply(v.L2, p.PermL2)
	pv.Slices = vfApply(v.Slices, p.PermS)
	d0, _ := v.l2Decisions("svc0")
	d1, err := pv.l2Decisions("svc0")
	if err == nil && fmt.Sprint(announcers(d0)) != fmt.Sprint(announcers(d1)) {
		return vw.Violationf("l2-order-dependent", "listing the same view in another order changes the announcer from %v to %v", announcers(d0), announcers(d1))
	}
	// (2) perturb: remove / add nodes
	q := v
	q.Nodes = append([]vw.NodeSpec(nil), v.Nodes...)
	q.Alive = append([]bool(nil), v.Alive...)
	removedAnnouncer := false
	for i, r := range p.Remove {
		if i >= len(q.Nodes) {
			break
		}
		switch r {
		case 1:
			q.Alive[i] = false
		case 2:
			q.Nodes[i].Unavailable = true
		case 3:
			q.Nodes[i].Excluded = true
		}
	}
	added := map[string]bool{}
	for i := 0; i < p.Add; i++ {
		n := vw.NodeSpec{Name: fmt.Sprintf("newnode%d", i), IPs: []string{fmt.Sprintf("192.168.7.%d", i+1)}}
		if len(v.Nodes) > 0 {
			n.Labels = v.Nodes[0].Labels
		}
		q.Nodes = append(q.Nodes, n)
		q.Alive = append(q.Alive, true)
		added[n.Name] = true
	}
	a2, E2, viol := judgeView(q, tr)
	if viol != nil || E2 == nil {
		return viol
	}
	if len(E) >= 2 && len(E2) >= 2 {
		tr.NonTrivial()
	}
	if a != "" && !E2[a] {
		removedAnnouncer = true
		tr.Class("announcer-removed")
	}
	if a != "" && a2 != "" && a != a2 && E2[a] && E[a2] {
		return vw.Violationf("l2-address-moved-between-surviving-nodes", "announcer of %v moved from %s to %s although both were eligible before (%v) and after (%v)", v.IPs, a, a2, keysOf(E), keysOf(E2))
	}
	if a != "" && !removedAnnouncer && a2 != a && !added[a2] {
		return vw.Violationf("l2-needless-failover", "announcer %s stayed eligible but the address moved to %s which is not a new node (before %v, after %v)", a, a2, keysOf(E), keysOf(E2))
	}
	if a != "" && !removedAnnouncer && a2 == a {
		tr.Class("announcer-kept")
	}
	return nil
}

func TestVerifC12Perturb(t *testing.T) {
	vw.Run(t, vw.Options{Property: "C12", Engine: "perturb",
		Rule: "a view V (as C04, biased to several eligible nodes) and a perturbation (per node: speaker dies / NetworkUnavailable / exclude label; 0..2 added nodes; permutations of nodes, advertisements and slices); relations between the announcers of V and V'; non-trivial = >=2 eligible nodes before and after"},
		genPerturb, runPerturb)
}

// Bounded exhaustive part of C04/C12: 5 always-eligible nodes, all 2^5 subsets removed, 64 addresses.
func TestVerifC12Exhaustive(t *testing.T) {
	var cases []vfPerturb
	base := vfView{L2: []vw.L2AdvSpec{{Name: "l2all"}}, Slices: []vw.SliceSpec{{Name: "s", NS: "ns0", Svc: "svc0", Endpoints: []vw.EndpointSpec{{Addrs: []string{"10.244.0.1"}, Node: "node0", Ready: 1}}}}}
	for i := 0; i < 5; i++ {
		base.Nodes = append(base.Nodes, vw.NodeSpec{Name: fmt.Sprintf("node%d", i), IPs: []string{fmt.Sprintf("192.168.0.%d", i+1)}})
		base.Alive = append(base.Alive, true)
	}
	naddr := 64
	for ai := 0; ai < naddr; ai++ {
		ip := fmt.Sprintf("10.0.0.%d", ai%16)
		if ai >= 16 {
			ip = fmt.Sprintf("fc00::%x", ai%16)
		}
		if ai >= 32 { // other node names
			ip = fmt.Sprintf("10.0.0.%d", ai%16)
		}
		for mask := 0; mask < 32; mask++ {
			v := base
			v.IPs = []string{ip}
			if ai >= 32 {
				v.Nodes = append([]vw.NodeSpec(nil), base.Nodes...)
				for i := range v.Nodes {
					v.Nodes[i].Name = fmt.Sprintf("worker-%c%d", 'a'+byte(ai%7), i*(ai%5+1))
				}
				v.Slices = []vw.SliceSpec{{Name: "s", NS: "ns0", Svc: "svc0", Endpoints: []vw.EndpointSpec{{Addrs: []string{"10.244.0.1"}, Node: v.Nodes[0].Name, Ready: 1}}}}
			}
			p := vfPerturb{View: v}
			for i := 0; i < 5; i++ {
				if mask&(1<<i) != 0 {
					p.Remove = append(p.Remove, 1+i%3)
				} else {
					p.Remove = append(p.Remove, 0)
				}
			}
			cases = append(cases, p)
		}
	}
	vw.RunFixed(t, vw.Options{Property: "C12", Engine: "exhaustive-subsets", Exhaustive: true,
		Rule: "complete enumeration: 5 eligible nodes x all 32 subsets removed x 64 (address, node-name family) combinations = 2048 perturbations"}, cases, runPerturb)
}

// ---- C10 -------------------------------------------------------------------------

type vfBGPView struct {
	View  vfView `json:"view"`
	Me    int    `json:"me"`
	Loose bool   `json:"loose"` // endpoint addresses may appear on several nodes: only the two safe implications are asserted
}

func genBGPView(rt *rapid.T) vfBGPView {
	b := vfBGPView{Loose: rapid.IntRange(0, 3).Draw(rt, "loose") == 0}
	v := vfView{PoolLabels: vw.GenLabels(rt, "plabels")}
	n := rapid.IntRange(1, 3).Draw(rt, "nnodes")
	for i := 0; i < n; i++ {
		v.Nodes = append(v.Nodes, vw.NodeSpec{Name: fmt.Sprintf("node%d", i), Labels: vw.GenLabels(rt, "nlabels"), IPs: []string{fmt.Sprintf("192.168.0.%d", i+1)},
			Unavailable: rapid.IntRange(0, 5).Draw(rt, "unavail") == 0}.WithExcl(vw.GenExcl(rt, 5)))
		v.Alive = append(v.Alive, true)
	}
	v.Ignore = rapid.IntRange(0, 2).Draw(rt, "ignore") == 0
	for i, k := 0, rapid.IntRange(0, 3).Draw(rt, "nbgp"); i < k; i++ {
		a := vw.BGPAdvSpec{Name: fmt.Sprintf("bgpadv%d", i), Agg4: -1, Agg6: -1}
		if rapid.IntRange(0, 1).Draw(rt, "bgpnodeK") == 0 {
			a.NodeSel = vw.GenSels(rt, "bgpnodesel", 2)
		}
		switch rapid.IntRange(0, 4).Draw(rt, "bgptarget") {
		case 0:
			a.Pools = []string{"other"}
		case 1:
			a.PoolSel = vw.GenSels(rt, "bgppoolsel", 2)
		case 2:
			a.Pools = []string{"pool0"}
		}
		v.BGP = append(v.BGP, a)
	}
	v.Local = rapid.Bool().Draw(rt, "local")
	v.Slices = vw.GenSlices(rt, "ns0", "svc0", nodeNames(v.Nodes), 3, 4, !b.Loose)
	v.IPs = []string{"10.0.0.1"}
	b.View = v
	b.Me = rapid.IntRange(0, n-1).Draw(rt, "me")
	return b
}

func runBGPView(b vfBGPView, tr *vw.Trace) *vw.Violation {
	v := b.View
	cfg, err := verifcfg.Config(v.cluster(), config.DontValidate)
	if err != nil {
		tr.Class("view-config-rejected")
		return nil
	}
	me := v.Nodes[b.Me%len(v.Nodes)]
	c := &bgpController{myNode: me.Name, ignoreExcludeLB: v.Ignore}
	got := c.ShouldAnnounce(log.NewNopLogger(), "ns0/svc0", v.ips(), cfg.Pools.ByName["pool0"], v.svc("svc0"), vw.SlicesCR(v.Slices), v.nodeMap())
	selected := false
	for _, a := range v.BGP {
		if v.targetsPool0(a.Pools, a.PoolSel) && vw.AnyMatches(a.NodeSel, me.AllLabels()) {
			selected = true
		}
	}
	nodeOK := selected && !me.Unavailable && (!me.Excluded || v.Ignore)
	// per address: ready iff every entry carrying it can serve
	ready := map[string]bool{}
	onMe := map[string]bool{}
	anyServing, anyServingOnMe := false, false
	allServing, anyEntryOnMe := true, false
	repeated, conflict := false, false
	seen := map[string]int{}
	for _, s := range v.Slices {
		for _, e := range s.Endpoints {
			if e.CanServe() {
				anyServing = true
				if e.Node == me.Name {
					anyServingOnMe = true
				}
			} else {
				allServing = false
			}
			if e.Node == me.Name {
				anyEntryOnMe = true
			}
			for _, a := range e.Addrs {
				seen[a]++
				if seen[a] > 1 {
					repeated = true
				}
				if r, ok := ready[a]; ok {
					if r != e.CanServe() {
						conflict = true
					}
					ready[a] = r && e.CanServe()
				} else {
					ready[a] = e.CanServe()
				}
				if e.Node == me.Name {
					onMe[a] = true
				}
			}
		}
	}
	eCluster, eLocal := false, false
	for a, r := range ready {
		if r {
			eCluster = true
			if onMe[a] {
				eLocal = true
			}
		}
	}
	if conflict {
		tr.Class("repeated-address-with-conflicting-conditions")
	}
	if v.Local && anyServing && !anyServingOnMe {
		tr.Class("local-with-endpoints-only-elsewhere")
	}
	if me.Excluded && v.Ignore {
		tr.Class("excluded-but-ignored")
	}
	if conflict || (v.Local && anyServing && !anyServingOnMe) || (me.Excluded && v.Ignore) || repeated {
		tr.NonTrivial()
	}
	announce := got == ""
	if b.Loose {
		tr.Class("loose-domain")
		// implications that hold under either reading of "an address on several nodes"
		if announce && !eCluster {
			return vw.Violationf("bgp-announce-without-ready-address", "node %s announces (policy local=%v) although no endpoint address is ready: every address has an entry that is neither ready nor serving", me.Name, v.Local)
		}
		if announce && !(nodeOK && anyServing && (!v.Local || anyServingOnMe)) {
			return vw.Violationf("bgp-announce-without-eligibility", "node %s announces (policy local=%v) although nodeOK=%v, serving endpoints=%v, serving on this node=%v", me.Name, v.Local, nodeOK, anyServing, anyServingOnMe)
		}
		hasAny := false
		for _, s := range v.Slices {
			for _, e := range s.Endpoints {
				if len(e.Addrs) > 0 {
					hasAny = true
				}
			}
		}
		if nodeOK && hasAny && allServing && (!v.Local || anyEntryOnMe) && !announce {
			return vw.Violationf("bgp-no-announce-despite-eligibility", "node %s does not announce (%q) although it is selected and available and every endpoint entry is serving", me.Name, got)
		}
		return nil
	}
	want := nodeOK && ((!v.Local && eCluster) || (v.Local && eLocal))
	if announce != want {
		return vw.Violationf("bgp-eligibility", "node %s: ShouldAnnounce=%q but the statement gives announce=%v (selected=%v unavailable=%v excluded=%v ignore=%v local=%v readyAnywhere=%v readyHere=%v)", me.Name, got, want, selected, me.Unavailable, me.Excluded, v.Ignore, v.Local, eCluster, eLocal)
	}
	return nil
}

func TestVerifC10Views(t *testing.T) {
	vw.Run(t, vw.Options{Property: "C10", Engine: "views",
		Rule:        "1..3 nodes (conditions, labels, exclude label), ignore flag, 0..3 BGP advertisements with node/pool selectors, both policies, 0..3 slices x 0..4 endpoints over a 3-address alphabet with ready/serving in {nil,true,false} and node in {nodes, none, unknown}; closed-form iff on the domain where an endpoint address lives on one node, two safe implications on the unrestricted domain; non-trivial = repeated address, conflicting conditions, Local with endpoints only elsewhere, or exclude label with ignore flag",
		Assumptions: []string{"main domain: all entries carrying an endpoint address name the same node (a pod IP is on one node)"}},
		genBGPView, runBGPView)
}

// ---- bounded exhaustive enumeration for C04 (and the eligibility closed form of C10) -----------
//
// 3 nodes x per-node (speaker alive, NetworkUnavailable, exclude label, selected by the advertisement)
// x memberlist on/off x ignore flag x traffic policy x 2 endpoints with node in {node0, node1, none}
// and condition in {ready, not ready but serving, not serving}: 16^3 * 8 * 81 = 2 654 208 views.

const c04EnumSize = 16 * 16 * 16 * 8 * 81

func c04ViewAt(i int) vfView {
	v := vfView{IPs: []string{"10.0.0.1"}, L2: []vw.L2AdvSpec{{Name: "l2", Pools: []string{"pool0"}, NodeSel: []vw.Sel{{"sel": "yes"}}}}}
	for n := 0; n < 3; n++ {
		f := i % 16
		i /= 16
		ns := vw.NodeSpec{Name: fmt.Sprintf("node%d", n), IPs: []string{fmt.Sprintf("192.168.0.%d", n+1)}, Unavailable: f&2 != 0, Excluded: f&4 != 0}
		if f&8 != 0 {
			ns.Labels = map[string]string{"sel": "yes"}
		}
		v.Nodes = append(v.Nodes, ns)
		v.Alive = append(v.Alive, f&1 != 0)
	}
	g := i % 8
	i /= 8
	v.Disabled, v.Ignore, v.Local = g&1 != 0, g&2 != 0, g&4 != 0
	s := vw.SliceSpec{Name: "s", NS: "ns0", Svc: "svc0"}
	for e := 0; e < 2; e++ {
		k := i % 9
		i /= 9
		ep := vw.EndpointSpec{Addrs: []string{fmt.Sprintf("10.244.0.%d", e+1)}, Node: []string{"node0", "node1", ""}[k%3]}
		switch k / 3 {
		case 0:
			ep.Ready = 1
		case 1:
			ep.Ready, ep.Serving, ep.Term = 2, 1, 1
		case 2:
			ep.Ready, ep.Serving = 2, 2
		}
		s.Endpoints = append(s.Endpoints, ep)
	}
	v.Slices = []vw.SliceSpec{s}
	return v
}

func TestVerifC04Exhaustive(t *testing.T) {
	vw.RunEnum(t, vw.Options{Property: "C04", Engine: "exhaustive-views",
		Rule: "complete enumeration (thorough tier; the quick tier visits every 64th view, offset by the seed): 3 nodes x (speaker alive, NetworkUnavailable, exclude label, selected) x memberlist on/off x ignore flag x traffic policy x 2 endpoints (node0/node1/none x ready / terminating-but-serving / not serving) = 2 654 208 views; non-trivial = >=2 eligible nodes or eligible set != node set"},
		c04EnumSize, 64, c04ViewAt,
		func(v vfView, tr *vw.Trace) *vw.Violation {
			_, el, viol := judgeView(v, tr)
			if len(el) >= 2 || (el != nil && len(el) != len(v.Nodes)) {
				tr.NonTrivial()
			}
			return viol
		})
}

// ---- bounded exhaustive enumeration for C10 -------------------------------------------------
//
// this node x (selected by the advertisement / advertisement of the pool selects other nodes / advertisement
// only for another pool) x NetworkUnavailable x exclude label x ignore flag x traffic policy
// x home node of endpoint addresses A and B in {this node, another node, no node name}
// x 3 endpoint-slice entries, each absent or (address A/B, ready in {nil,true,false}, serving in {nil,true,false},
// slice 0/1): 48 * 9 * 37^3 = 21 882 096 views, all inside the domain where an address lives on one node.

const c10EnumSize = 48 * 9 * 37 * 37 * 37

func c10ViewAt(i int) vfBGPView {
	v := vfView{IPs: []string{"10.0.0.1"}}
	f := i % 48
	i /= 48
	me := vw.NodeSpec{Name: "node0", IPs: []string{"192.168.0.1"}, Unavailable: f&1 != 0, Excluded: f&2 != 0}
	v.Ignore, v.Local = f&4 != 0, f&8 != 0
	adv := vw.BGPAdvSpec{Name: "bgpadv0", Agg4: -1, Agg6: -1}
	switch f / 16 {
	case 0:
		adv.Pools, adv.NodeSel = []string{"pool0"}, []vw.Sel{{"sel": "yes"}}
		me.Labels = map[string]string{"sel": "yes"}
	case 1:
		adv.Pools, adv.NodeSel = []string{"pool0"}, []vw.Sel{{"sel": "yes"}}
	case 2:
		adv.Pools = []string{"other"}
	}
	v.BGP = []vw.BGPAdvSpec{adv}
	v.Nodes = []vw.NodeSpec{me, {Name: "node1", IPs: []string{"192.168.0.2"}, Labels: map[string]string{"sel": "yes"}}}
	v.Alive = []bool{true, true}
	h := i % 9
	i /= 9
	home := [2]string{[]string{"node0", "node1", ""}[h%3], []string{"node0", "node1", ""}[h/3]}
	sl := []vw.SliceSpec{{Name: "s0", NS: "ns0", Svc: "svc0"}, {Name: "s1", NS: "ns0", Svc: "svc0"}}
	for e := 0; e < 3; e++ {
		k := i % 37
		i /= 37
		if k == 0 {
			continue
		}
		k--
		a := k % 2
		cond := (k / 2) % 9
		ep := vw.EndpointSpec{Addrs: []string{fmt.Sprintf("10.244.0.%d", a+1)}, Node: home[a], Ready: vw.Tri(cond % 3), Serving: vw.Tri(cond / 3)}
		sl[k/18].Endpoints = append(sl[k/18].Endpoints, ep)
	}
	for _, s := range sl {
		if len(s.Endpoints) > 0 {
			v.Slices = append(v.Slices, s)
		}
	}
	return vfBGPView{View: v}
}

func TestVerifC10Exhaustive(t *testing.T) {
	vw.RunEnum(t, vw.Options{Property: "C10", Engine: "exhaustive-views",
		Rule:        "complete enumeration (thorough tier; the quick tier visits every 2048th view, offset by the seed): this node x (selected / pool advertised from other nodes only / only another pool advertised) x NetworkUnavailable x exclude label x ignore flag x traffic policy x home node of endpoint addresses A and B in {this node, other node, none} x 3 endpoint-slice entries each absent or (A/B, ready nil/true/false, serving nil/true/false, slice 0/1) = 21 882 096 views; closed-form iff of the statement; non-trivial as in the views engine",
		Assumptions: []string{"every entry carrying an endpoint address names the same node (a pod IP is on one node)"}},
		c10EnumSize, 2048, c10ViewAt, runBGPView)
}
