//go:build verif

package main

// Speaker histories (C05: per-peer routes, C09: history independence).
//
// The real speaker controller (BGP controller over a recording session manager,
// layer-2 controller over a goroutine-free announcer) is driven through the real
// ServiceReconciler(Endpoints), NodeReconciler, ConfigReconciler and Listener over
// the mini API server; the harness owns the schedule.

import (
	"context"
	"fmt"
	"net/netip"
	"os"
	"reflect"
	"sort"
	"strconv"
	"strings"
	"testing"

	"github.com/go-kit/log"
	"go.universe.tf/metallb/internal/bgp"
	"go.universe.tf/metallb/internal/config"
	"go.universe.tf/metallb/internal/k8s"
	"go.universe.tf/metallb/internal/k8s/controllers"
	"go.universe.tf/metallb/internal/layer2"
	"go.universe.tf/metallb/internal/speakerlist"
	"go.universe.tf/metallb/internal/verifcfg"
	vw "go.universe.tf/metallb/internal/verifworld"
	v1 "k8s.io/api/core/v1"
	discovery "k8s.io/api/discovery/v1"
	"k8s.io/apimachinery/pkg/types"
	"pgregory.net/rapid"
	ctrl "sigs.k8s.io/controller-runtime"
	"sigs.k8s.io/controller-runtime/pkg/event"
)

// ---- recording session manager -------------------------------------------------

type recSession struct {
	m    *recManager
	name string
}

type recManager struct {
	live   map[string][]*bgp.Advertisement // session name -> last Set (the very objects, as the native session keeps them)
	given  map[string][]string             // what those objects said at the moment of the Set call
	params map[string]bgp.SessionParameters
	extra  string // last SyncExtraInfo
	errs   []string
}

// adExact renders an advertisement exactly as given (community order included).
func adExact(a *bgp.Advertisement) string {
	var cs []string
	for _, c := range a.Communities {
		cs = append(cs, c.String())
	}
	return fmt.Sprintf("%s lp=%d comm=%s peers=%v", a.Prefix.String(), a.LocalPref, strings.Join(cs, ","), a.Peers)
}

// mutated reports advertisements whose content changed after they were handed to Set (a session keeps the objects
// and compares later requests with them).
func (m *recManager) mutated() string {
	for name, ads := range m.live {
		for i, a := range ads {
			if i < len(m.given[name]) && adExact(a) != m.given[name][i] {
				return fmt.Sprintf("session %s: an advertisement handed to Set as %q now reads %q", name, m.given[name][i], adExact(a))
			}
		}
	}
	return ""
}

// requests: per session the multiset of exact requests.
func (m *recManager) requests() map[string][]string {
	out := map[string][]string{}
	for name := range m.live {
		l := append([]string(nil), m.given[name]...)
		sort.Strings(l)
		out[name] = l
	}
	return out
}

func newRecManager() *recManager {
	return &recManager{live: map[string][]*bgp.Advertisement{}, given: map[string][]string{}, params: map[string]bgp.SessionParameters{}}
}

func (m *recManager) NewSession(_ log.Logger, args bgp.SessionParameters) (bgp.Session, error) {
	if _, dup := m.live[args.SessionName]; dup {
		m.errs = append(m.errs, "session "+args.SessionName+" created twice")
	}
	m.live[args.SessionName] = nil
	m.params[args.SessionName] = args
	return &recSession{m, args.SessionName}, nil
}
func (m *recManager) SyncBFDProfiles(map[string]*config.BFDProfile) error { return nil }
func (m *recManager) SyncExtraInfo(e string) error                        { m.extra = e; return nil }
func (m *recManager) SetEventCallback(func(interface{}))                  {}

func (s *recSession) Close() error {
	if _, ok := s.m.live[s.name]; !ok {
		s.m.errs = append(s.m.errs, "session "+s.name+" closed twice")
	}
	delete(s.m.live, s.name)
	return nil
}

func (s *recSession) Set(advs ...*bgp.Advertisement) error {
	if _, ok := s.m.live[s.name]; !ok {
		s.m.errs = append(s.m.errs, "Set on closed session "+s.name)
		return nil
	}
	// the objects of the previous request must still say what they said then: the session compares the new request
	// with them to decide what to send
	for i, a := range s.m.live[s.name] {
		if i < len(s.m.given[s.name]) && adExact(a) != s.m.given[s.name][i] {
			s.m.errs = append(s.m.errs, fmt.Sprintf("session %s: an advertisement handed to Set as %q was changed to %q before the next Set", s.name, s.m.given[s.name][i], adExact(a)))
			break
		}
	}
	s.m.live[s.name] = append([]*bgp.Advertisement(nil), advs...)
	var g []string
	for _, a := range advs {
		g = append(g, adExact(a))
	}
	s.m.given[s.name] = g
	return nil
}

func adString(a *bgp.Advertisement) string {
	var cs []string
	for _, c := range a.Communities {
		cs = append(cs, c.String())
	}
	sort.Strings(cs)
	return fmt.Sprintf("%s lp=%d comm=%s", a.Prefix.String(), a.LocalPref, strings.Join(cs, ","))
}

type spkFakeClient struct{}

func (spkFakeClient) UpdateStatus(*v1.Service) error                     { panic("speaker must not write service status") }
func (spkFakeClient) Infof(*v1.Service, string, string, ...interface{})  {}
func (spkFakeClient) Errorf(*v1.Service, string, string, ...interface{}) {}

// ---- case ----------------------------------------------------------------------

type spkSvc struct {
	Spec   vw.SvcSpec     `json:"spec"`
	IPs    []string       `json:"ips"` // what the MetalLB controller recorded in status
	Slices []vw.SliceSpec `json:"slices"`
}

type spkOp struct {
	Kind    string          `json:"kind"`
	Svc     int             `json:"svc,omitempty"`
	New     *spkSvc         `json:"new,omitempty"`
	Node    *vw.NodeSpec    `json:"node,omitempty"`
	Cluster *vw.ClusterSpec `json:"cluster,omitempty"`
	Alive   []bool          `json:"alive,omitempty"`
	Pick    int             `json:"pick,omitempty"`
	Fail    []bool          `json:"fail,omitempty"`   // failreads: outcomes of the next EndpointSlice lists (true = the read fails)
	Narrow  int             `json:"narrow,omitempty"` // svc-ips: 1 = keep only the first of the current addresses, 2 = keep only the second, 3 = keep the first and replace the second
}

type spkCase struct {
	Cluster  vw.ClusterSpec `json:"cluster"`
	Disabled bool           `json:"memberlist_disabled,omitempty"`
	Ignore   bool           `json:"ignore_exclude_lb,omitempty"`
	LBClass  bool           `json:"lb_class,omitempty"` // the speaker runs with --lb-class and every service carries that class
	Alive    []bool         `json:"alive"`
	Ops      []spkOp        `json:"ops"`
}

const spkMe = "node0"

var spkAddrs = map[string][]string{
	"poolA": {"10.1.0.1", "10.1.0.2", "10.1.0.130", "fc00:1::1", "fc00:1::2"},
	"poolB": {"10.2.0.17", "10.2.0.18"},
	"poolC": {"fc00:2::1", "fc00:2::2"},
}

func spkPools(rt *rapid.T) []vw.PoolSpec {
	ps := []vw.PoolSpec{
		{Name: "poolA", Addresses: []string{"10.1.0.0/24", "fc00:1::/120"}, Labels: vw.GenLabels(rt, "plabels")},
		{Name: "poolB", Addresses: []string{"10.2.0.16/28"}, Labels: vw.GenLabels(rt, "plabels")},
		{Name: "poolC", Addresses: []string{"fc00:2::/124"}, Labels: vw.GenLabels(rt, "plabels")},
	}
	n := rapid.IntRange(1, 3).Draw(rt, "npools")
	perm := rapid.Permutation(ps).Draw(rt, "poolsel")
	out := perm[:n]
	sort.Slice(out, func(i, j int) bool { return out[i].Name < out[j].Name })
	return out
}

// community aliases every configuration carries: a plain alias, and one whose *name* looks like a community literal
var spkCommunityCR = vw.CommunitySpec{Name: "comms", Aliases: [][2]string{{"alias1", "65000:7"}, {"64512:666", "65535:666"}}}

func spkAdvs(rt *rapid.T, c *vw.ClusterSpec) {
	c.L2, c.BGP, c.Peers = nil, nil, nil
	c.Comms = []vw.CommunitySpec{spkCommunityCR}
	// BFD profiles, some of them referenced by no peer (created ahead of their peers)
	c.BFD = nil
	for i, k := 0, rapid.SampledFrom([]int{0, 0, 1, 2}).Draw(rt, "nbfd"); i < k; i++ {
		c.BFD = append(c.BFD, vw.BFDSpec{Name: fmt.Sprintf("bfd%d", i), Rx: rapid.SampledFrom([]uint32{0, 100, 300}).Draw(rt, "bfdRx")})
	}
	for i, k := 0, rapid.IntRange(0, 2).Draw(rt, "nl2"); i < k; i++ {
		a := vw.L2AdvSpec{Name: fmt.Sprintf("l2adv%d", i)}
		if rapid.IntRange(0, 2).Draw(rt, "l2nodeK") == 0 {
			a.NodeSel = vw.GenSels(rt, "l2nodesel", 2)
		}
		switch rapid.IntRange(0, 3).Draw(rt, "l2target") {
		case 0:
			a.PoolSel = vw.GenSels(rt, "l2poolsel", 1)
		case 1:
			a.Pools = []string{rapid.SampledFrom([]string{"poolA", "poolB", "poolC"}).Draw(rt, "l2pool")}
		case 2: // both: the named pool and whatever the selector matches
			a.Pools = []string{rapid.SampledFrom([]string{"poolA", "poolB", "poolC"}).Draw(rt, "l2pool")}
			a.PoolSel = vw.GenSels(rt, "l2poolsel", 1)
		}
		if rapid.IntRange(0, 2).Draw(rt, "l2if") == 0 {
			a.Interfaces = rapid.SampledFrom([][]string{{"ifA"}, {"ifA", "ifB"}, {"ifC"}, {"ifB", "ifC"}}).Draw(rt, "ifs")
		}
		c.L2 = append(c.L2, a)
	}
	for i, k := 0, rapid.SampledFrom([]int{0, 1, 2, 2, 3, 3}).Draw(rt, "npeers"); i < k; i++ {
		p := vw.PeerSpec{Name: fmt.Sprintf("peer%d", i), MyASN: 64512, ASN: 64512 + uint32(i%2), Address: fmt.Sprintf("192.168.1.%d", i+1)}
		if rapid.IntRange(0, 2).Draw(rt, "peerselK") == 0 {
			p.NodeSel = vw.GenSels(rt, "peernodesel", 2)
		}
		if rapid.IntRange(0, 2).Draw(rt, "peerRouterID") == 0 {
			p.RouterID = fmt.Sprintf("10.9.9.%d", i+1)
		}
		switch rapid.IntRange(0, 3).Draw(rt, "peerPassword") {
		case 0:
			p.Password = fmt.Sprintf("pw%d", i)
		case 1:
			p.Secret = "pw-" + p.Name
		}
		if len(c.BFD) > 0 && rapid.IntRange(0, 2).Draw(rt, "peerBFD") == 0 {
			p.BFD = c.BFD[0].Name
		}
		c.Peers = append(c.Peers, p)
	}
	lp := rapid.SampledFrom([]uint32{0, 100}).Draw(rt, "lp")
	for i, k := 0, rapid.SampledFrom([]int{0, 1, 1, 2, 2, 3}).Draw(rt, "nbgp"); i < k; i++ {
		a := vw.BGPAdvSpec{Name: fmt.Sprintf("bgpadv%d", i), Agg4: -1, Agg6: -1, LocalPref: lp}
		if rapid.IntRange(0, 2).Draw(rt, "bgpnodeK") == 0 {
			a.NodeSel = vw.GenSels(rt, "bgpnodesel", 2)
		}
		switch rapid.IntRange(0, 3).Draw(rt, "bgptarget") {
		case 0:
			a.PoolSel = vw.GenSels(rt, "bgppoolsel", 1)
		case 1:
			a.Pools = []string{rapid.SampledFrom([]string{"poolA", "poolB", "poolC"}).Draw(rt, "bgppool")}
		case 2: // both: the named pool and whatever the selector matches
			a.Pools = []string{rapid.SampledFrom([]string{"poolA", "poolB", "poolC"}).Draw(rt, "bgppool")}
			a.PoolSel = vw.GenSels(rt, "bgppoolsel", 1)
		}
		if rapid.IntRange(0, 1).Draw(rt, "aggK") == 0 {
			a.Agg4 = rapid.SampledFrom([]int{32, 30, 28, 28, 25, 24}).Draw(rt, "agg4")
			a.Agg6 = rapid.SampledFrom([]int{128, 127, 124, 120}).Draw(rt, "agg6")
		}
		if rapid.IntRange(0, 2).Draw(rt, "commK") == 0 {
			a.Communities = rapid.SampledFrom([][]string{{"65000:1"}, {"65000:2", "65000:1"}, {"large:1:2:3"}, {"alias1"}, {"64512:666", "65000:1"}, {"0100:0200"}, {"large:0064512:010:07", "alias1"}, {"large:64512:2:0", "large:64512:1:0"}, {"large:64512:1:5", "large:64512:3:0", "65000:1"}}).Draw(rt, "comms")
		}
		if len(c.Peers) > 0 && rapid.IntRange(0, 2).Draw(rt, "peersK") == 0 {
			for _, p := range c.Peers {
				if rapid.Bool().Draw(rt, "advpeer") {
					a.Peers = append(a.Peers, p.Name)
				}
			}
			// a name no configured peer carries (deleted peer, typo): the configuration layer tolerates it
			if rapid.IntRange(0, 2).Draw(rt, "ghostPeer") == 0 {
				a.Peers = append(a.Peers, "ghostpeer")
			}
		}
		c.BGP = append(c.BGP, a)
	}
}

func genSpkNode(rt *rapid.T, name string, i int) vw.NodeSpec {
	return vw.NodeSpec{Name: name, Labels: vw.GenLabels(rt, "nlabels"), IPs: []string{fmt.Sprintf("192.168.0.%d", i+1)},
		Unavailable: rapid.IntRange(0, 7).Draw(rt, "unavail") == 0}.WithExcl(vw.GenExcl(rt, 8))
}

func genSpkCluster(rt *rapid.T) vw.ClusterSpec {
	c := vw.ClusterSpec{Pools: spkPools(rt)}
	for i, n := 0, rapid.IntRange(1, 3).Draw(rt, "nnodes"); i < n; i++ {
		c.Nodes = append(c.Nodes, genSpkNode(rt, fmt.Sprintf("node%d", i), i))
	}
	spkAdvs(rt, &c)
	return c
}

func genSpkSvc(rt *rapid.T, i int, cl vw.ClusterSpec) spkSvc {
	s := spkSvc{Spec: vw.SvcSpec{NS: "ns0", Name: fmt.Sprintf("svc%d", i), Ports: []vw.PortSpec{{Proto: "TCP", Port: 80}}, Families: []int{vw.FamilyV4}, Local: rapid.IntRange(0, 2).Draw(rt, "local") == 0}}
	if rapid.IntRange(0, 9).Draw(rt, "typeK") == 0 {
		s.Spec.Type = vw.TypeClusterIP
	}
	s.IPs = genSpkIPs(rt, cl)
	s.Slices = vw.GenSlices(rt, "ns0", s.Spec.Name, nodeNames(cl.Nodes), 2, 3, true)
	if rapid.IntRange(0, 1).Draw(rt, "healthyHere") == 0 {
		s.Slices = append(s.Slices, vw.SliceSpec{Endpoints: []vw.EndpointSpec{{Addrs: []string{"10.244.7.7"}, Node: spkMe, Ready: 1}}})
	}
	return s
}

func genSpkIPs(rt *rapid.T, cl vw.ClusterSpec) []string {
	if len(cl.Pools) == 0 || rapid.IntRange(0, 7).Draw(rt, "noip") == 0 {
		return nil
	}
	p := rapid.SampledFrom(cl.Pools).Draw(rt, "ippool")
	base := strings.TrimRight(p.Name, "r")
	cands := spkAddrs[base]
	if len(cands) == 0 {
		return nil
	}
	a := rapid.SampledFrom(cands).Draw(rt, "ip")
	out := []string{a}
	if base == "poolA" && rapid.IntRange(0, 1).Draw(rt, "dual") == 0 {
		var others []string
		for _, b := range cands {
			if strings.Contains(b, ":") != strings.Contains(a, ":") {
				others = append(others, b)
			}
		}
		if len(others) > 0 {
			out = append(out, rapid.SampledFrom(others).Draw(rt, "ip2"))
		}
	}
	return out
}

func genSpkCase(rt *rapid.T) spkCase {
	c := spkCase{Cluster: genSpkCluster(rt), Disabled: rapid.IntRange(0, 2).Draw(rt, "mlDisabled") == 0, Ignore: rapid.IntRange(0, 2).Draw(rt, "ignore") == 0, LBClass: rapid.IntRange(0, 3).Draw(rt, "lbClass") == 0}
	cur := c.Cluster
	for range cur.Nodes {
		c.Alive = append(c.Alive, rapid.IntRange(0, 4).Draw(rt, "alive") != 0)
	}
	nsvc := 0
	live := 0
	if rapid.IntRange(0, 7).Draw(rt, "bothProtocols") == 0 {
		// scenario: one service announced over layer 2 and BGP from this node, then BGP alone is withdrawn (its
		// advertisement stops selecting the node), then the address changes, then BGP comes back
		cl := vw.ClusterSpec{Pools: []vw.PoolSpec{{Name: "poolA", Addresses: []string{"10.1.0.0/24", "fc00:1::/120"}}}, Nodes: cur.Nodes, Comms: cur.Comms,
			L2:    []vw.L2AdvSpec{{Name: "l2both"}},
			BGP:   []vw.BGPAdvSpec{{Name: "bgpboth", Agg4: -1, Agg6: -1, NodeSel: []vw.Sel{{"a": "x"}}}},
			Peers: []vw.PeerSpec{{Name: "peer0", MyASN: 64512, ASN: 64512, Address: "192.168.1.1"}}}
		on, off := cur.Nodes[0], cur.Nodes[0]
		on.Labels, on.Unavailable, on.Excluded = map[string]string{"a": "x"}, false, false
		off.Labels, off.Unavailable, off.Excluded = nil, false, false
		cl.Nodes = append([]vw.NodeSpec{on}, cur.Nodes[1:]...)
		sv := spkSvc{Spec: vw.SvcSpec{NS: "ns0", Name: fmt.Sprintf("svc%d", nsvc), Ports: []vw.PortSpec{{Proto: "TCP", Port: 80}}, Families: []int{vw.FamilyV4}},
			IPs: []string{"10.1.0.1"}, Slices: []vw.SliceSpec{{Endpoints: []vw.EndpointSpec{{Addrs: []string{"10.244.7.7"}, Node: spkMe, Ready: 1}}}}}
		nsvc++
		live++
		all := make([]bool, len(cur.Nodes))
		for i := range all {
			all[i] = true
		}
		moved := spkSvc{IPs: []string{rapid.SampledFrom([]string{"10.1.0.2", "10.1.0.130"}).Draw(rt, "bothMoved")}}
		onN, offN, onN2 := on, off, on
		c.Ops = append(c.Ops, spkOp{Kind: "config", Cluster: &cl}, spkOp{Kind: "node", Node: &onN}, spkOp{Kind: "members", Alive: all},
			spkOp{Kind: "svc-create", New: &sv}, spkOp{Kind: "settle"},
			spkOp{Kind: "node", Node: &offN}, spkOp{Kind: "settle"},
			spkOp{Kind: "svc-ips", Svc: 0, New: &moved}, spkOp{Kind: "settle"},
			spkOp{Kind: "node", Node: &onN2}, spkOp{Kind: "settle"})
		cur = cl
	}
	nops := rapid.IntRange(3, 25).Draw(rt, "nops")
	for i := 0; i < nops; i++ {
		op := spkOp{}
		k := rapid.IntRange(0, 25).Draw(rt, "opK")
		if live == 0 && k > 3 && k < 14 {
			k = 0
		}
		switch {
		case k <= 3 && live < 4:
			op.Kind = "svc-create"
			s := genSpkSvc(rt, nsvc, cur)
			nsvc++
			live++
			op.New = &s
		case k <= 5:
			op.Kind = "svc-ips"
			op.Svc = rapid.IntRange(0, 3).Draw(rt, "svc")
			s := spkSvc{IPs: genSpkIPs(rt, cur)}
			op.New = &s
			if rapid.IntRange(0, 1).Draw(rt, "narrow") == 0 {
				op.Narrow = rapid.IntRange(1, 3).Draw(rt, "narrowTo") // a dual-stack service loses one of its addresses, or (3) only its second address is replaced
			}
		case k == 6:
			op.Kind = "svc-type"
			op.Svc = rapid.IntRange(0, 3).Draw(rt, "svc")
		case k == 7:
			op.Kind = "svc-policy"
			op.Svc = rapid.IntRange(0, 3).Draw(rt, "svc")
		case k <= 9:
			op.Kind = "svc-slices"
			op.Svc = rapid.IntRange(0, 3).Draw(rt, "svc")
			s := spkSvc{Slices: vw.GenSlices(rt, "ns0", "x", nodeNames(cur.Nodes), 2, 3, true)}
			op.New = &s
		case k == 10 && live > 0:
			op.Kind = "svc-delete"
			op.Svc = rapid.IntRange(0, 3).Draw(rt, "svc")
			live--
		case k <= 13:
			op.Kind = "node"
			j := rapid.IntRange(0, len(cur.Nodes)-1).Draw(rt, "nodeIdx")
			n := genSpkNode(rt, cur.Nodes[j].Name, j)
			op.Node = &n
			cur.Nodes = append([]vw.NodeSpec(nil), cur.Nodes...)
			cur.Nodes[j] = n
		case k == 14 && len(cur.Nodes) < 4:
			op.Kind = "node"
			n := genSpkNode(rt, fmt.Sprintf("node%d", len(cur.Nodes)), len(cur.Nodes))
			op.Node = &n
			cur.Nodes = append(append([]vw.NodeSpec(nil), cur.Nodes...), n)
		case k <= 17:
			op.Kind = "config"
			n := vw.ClusterSpec{Pools: cur.Pools, Nodes: cur.Nodes, Comms: cur.Comms, BFD: cur.BFD}
			switch rapid.IntRange(0, 3).Draw(rt, "cfgK") {
			case 0:
				n.Pools = spkPools(rt)
				n.L2, n.BGP, n.Peers = cur.L2, cur.BGP, cur.Peers
			case 1:
				n.Pools = append([]vw.PoolSpec(nil), cur.Pools...)
				if len(n.Pools) > 0 {
					j := rapid.IntRange(0, len(n.Pools)-1).Draw(rt, "renamePool")
					n.Pools[j].Name += "r"
				}
				n.L2, n.BGP, n.Peers = cur.L2, cur.BGP, cur.Peers
			default:
				spkAdvs(rt, &n)
			}
			n.Extras = cur.Extras
			if rapid.IntRange(0, 3).Draw(rt, "extrasK") == 0 {
				n.Extras = rapid.SampledFrom([]string{"", "# extra A", "# extra B"}).Draw(rt, "extras")
			}
			op.Cluster = &n
			cur = n
		case k == 22 || k == 23:
			// the speaker's own node flips between label sets (peers and advertisements get selected / de-selected and back)
			op.Kind = "node"
			n := cur.Nodes[0]
			n.Labels = rapid.SampledFrom([]map[string]string{nil, {"a": "x"}, {"a": "y"}, {"a": "x", "b": "y"}}).Draw(rt, "meLabels")
			if rapid.IntRange(0, 3).Draw(rt, "meAvail") == 0 {
				n.Unavailable = !n.Unavailable
			}
			op.Node = &n
			cur.Nodes = append([]vw.NodeSpec(nil), cur.Nodes...)
			cur.Nodes[0] = n
		case k == 24:
			// scenario: the node's labels flip away and back (a peer / advertisement is de-selected, then selected again)
			l1 := rapid.SampledFrom([]map[string]string{{"a": "x"}, {"a": "y"}, {"a": "x", "b": "y"}}).Draw(rt, "flipA")
			l2 := rapid.SampledFrom([]map[string]string{nil, {"a": "y"}, {"a": "x"}, {"b": "x"}}).Draw(rt, "flipB")
			for step, l := range []map[string]string{l1, l2, l1} {
				n := cur.Nodes[0]
				n.Labels = l
				nn := n
				c.Ops = append(c.Ops, spkOp{Kind: "node", Node: &nn}, spkOp{Kind: "settle"})
				cur.Nodes = append([]vw.NodeSpec(nil), cur.Nodes...)
				cur.Nodes[0] = n
				if step == 1 && rapid.Bool().Draw(rt, "flipChangeAddr") {
					// while one protocol may be withdrawn alone (its advertisement / peer de-selected): an address change
					sv := spkSvc{IPs: genSpkIPs(rt, cur)}
					c.Ops = append(c.Ops, spkOp{Kind: "svc-ips", Svc: rapid.IntRange(0, 3).Draw(rt, "flipSvc"), New: &sv}, spkOp{Kind: "settle"})
				}
			}
			op.Kind = "settle"
		case k == 21:
			// scenario: a node that carries the exclude label (which only matters without the ignore flag) loses its
			// network and gets it back, nothing else changing in those updates
			j := rapid.IntRange(0, len(cur.Nodes)-1).Draw(rt, "flapNode")
			base := cur.Nodes[j]
			if rapid.Bool().Draw(rt, "flapExcluded") {
				base.Excluded, base.ExclValue = true, rapid.SampledFrom([]string{"", "true"}).Draw(rt, "flapExclValue")
			}
			for _, un := range []bool{false, true, false} {
				n := base
				n.Unavailable = un
				nn := n
				c.Ops = append(c.Ops, spkOp{Kind: "node", Node: &nn}, spkOp{Kind: "settle"})
				cur.Nodes = append([]vw.NodeSpec(nil), cur.Nodes...)
				cur.Nodes[j] = n
			}
			op.Kind = "settle"
		case k == 18:
			op.Kind = "members"
			for range cur.Nodes {
				op.Alive = append(op.Alive, rapid.IntRange(0, 3).Draw(rt, "alive") != 0)
			}
		case k <= 20:
			op.Kind = "step"
			op.Pick = rapid.IntRange(0, 7).Draw(rt, "pick")
		case k == 25:
			// a transient API read failure: the next lists of EndpointSlices fail per the pattern
			op.Kind = "failreads"
			op.Fail = rapid.SliceOfN(rapid.Bool(), 1, 3).Draw(rt, "failReads")
		default:
			op.Kind = "settle"
		}
		c.Ops = append(c.Ops, op)
	}
	c.Ops = append(c.Ops, spkOp{Kind: "settle"})
	return c
}

// ---- simulator -------------------------------------------------------------------

type spkSim struct {
	w         *vw.World
	cl        vw.ClusterSpec
	c         *controller
	bgpc      *bgpController
	rec       *recManager
	ann       *layer2.Announce
	sl        *vfSpeakerList
	lis       *k8s.Listener
	svcRec    *controllers.ServiceReconciler
	nodeRec   *controllers.NodeReconciler
	cfgRec    *controllers.ConfigReconciler
	reload    chan event.GenericEvent
	pending   []string
	cfgCalls  int            // ConfigChanged invocations
	lastCfgOK bool           // the last one was accepted
	cfgSeen   vw.ClusterSpec // CRs of the last configuration the speaker accepted
	hasCfg    bool
	current   func() vw.ClusterSpec
	svcSeen   bool // some service was already handed to the speaker
	lateNew   bool // a node was seen for the first time after that
}

func newSpkSim(w *vw.World, sl *vfSpeakerList, ignore bool) *spkSim {
	s := &spkSim{w: w, sl: sl, rec: newRecManager()}
	old := newBGP
	newBGP = func(controllerConfig) bgp.SessionManager { return s.rec }
	c, err := newController(controllerConfig{MyNode: spkMe, Logger: log.NewNopLogger(), SList: sl, bgpType: bgpFrr, DisableLayer2: true, IgnoreExcludeLB: ignore,
		BGPAdsChangedCallback: func(string) {}, Layer2StatusChange: func(types.NamespacedName) {}})
	newBGP = old
	if err != nil {
		panic(err)
	}
	// layer 2 exactly as newController wires it, but over an announcer without goroutines
	s.ann = layer2.VerifNewAnnounceN([]string{"ifA", "ifB"}, 1024) // drained after every reconciliation; a big queue per instance only feeds the garbage collector
	c.protocolHandlers[config.Layer2] = &layer2Controller{announcer: s.ann, myNode: spkMe, sList: sl, ignoreExcludeLB: ignore, onStatusChange: func(types.NamespacedName) {}}
	c.protocols = append(c.protocols, config.Layer2)
	c.layer2StatusFetchFunc = s.ann.GetStatus
	c.client = spkFakeClient{}
	s.c = c
	s.bgpc = c.protocolHandlers[config.BGP].(*bgpController)
	s.lis = &k8s.Listener{
		ServiceChanged: func(l log.Logger, name string, svc *v1.Service, eps []discovery.EndpointSlice) controllers.SyncState {
			if svc != nil {
				s.svcSeen = true
			}
			return c.SetBalancer(l, name, svc, eps)
		},
		NodeChanged: func(l log.Logger, n *v1.Node) controllers.SyncState {
			if _, known := c.nodes[n.Name]; !known && s.svcSeen {
				s.lateNew = true
			}
			return c.SetNode(l, n)
		},
		ConfigChanged: func(l log.Logger, cfg *config.Config) controllers.SyncState {
			res := c.SetConfig(l, cfg)
			s.cfgCalls++
			s.lastCfgOK = res == controllers.SyncStateReprocessAll || res == controllers.SyncStateSuccess
			if res == controllers.SyncStateReprocessAll || res == controllers.SyncStateSuccess {
				s.hasCfg = true
				if s.current != nil {
					s.cfgSeen = s.current()
				}
			}
			return res
		}}
	s.reload = make(chan event.GenericEvent, 4096)
	fr := func() { s.reload <- controllers.NewReloadEvent() }
	s.svcRec = &controllers.ServiceReconciler{Client: w, Logger: log.NewNopLogger(), Handler: s.lis.ServiceHandler, Endpoints: true, Reload: s.reload, LoadBalancerClass: w.LBClass}
	s.nodeRec = &controllers.NodeReconciler{Client: w, Logger: log.NewNopLogger(), NodeName: spkMe, Handler: s.lis.NodeHandler, ForceReload: fr}
	s.cfgRec = &controllers.ConfigReconciler{Client: w, Logger: log.NewNopLogger(), Namespace: vw.MetalNS, Handler: s.lis.ConfigHandler, ValidateConfig: config.DontValidate, ForceReload: fr}
	return s
}

func (s *spkSim) enqueue(req string) {
	for _, p := range s.pending {
		if p == req {
			return
		}
	}
	s.pending = append(s.pending, req)
}

func (s *spkSim) process(i int) {
	req := s.pending[i]
	s.pending = append(s.pending[:i:i], s.pending[i+1:]...)
	var err error
	switch {
	case req == "config":
		_, err = s.cfgRec.Reconcile(context.Background(), ctrl.Request{NamespacedName: types.NamespacedName{Namespace: vw.MetalNS, Name: "x"}})
	case req == "reload":
		_, err = s.svcRec.Reconcile(context.Background(), reloadReq)
	case strings.HasPrefix(req, "node:"):
		_, err = s.nodeRec.Reconcile(context.Background(), ctrl.Request{NamespacedName: types.NamespacedName{Name: req[5:]}})
	default:
		j := strings.IndexByte(req, '/')
		_, err = s.svcRec.Reconcile(context.Background(), ctrl.Request{NamespacedName: types.NamespacedName{Namespace: req[:j], Name: req[j+1:]}})
	}
	if err != nil {
		s.enqueue(req)
	}
	for {
		select {
		case <-s.reload:
			s.enqueue("reload")
			continue
		default:
		}
		break
	}
	s.ann.VerifDrainSpam()
	if os.Getenv("VERIF_TRACE") != "" {
		fmt.Fprintf(os.Stderr, "   processed %s err=%v -> pending=%v\n", req, err, s.pending)
	}
}

var reloadReq = ctrl.Request{NamespacedName: types.NamespacedName{Namespace: "metallbreload", Name: "reload"}}

func (s *spkSim) settle() *vw.Violation {
	for n := 0; len(s.pending) > 0; n++ {
		if n > 300 {
			return vw.Violationf("no-quiescence", "the speaker still has pending work after 300 reconciliations: %v", s.pending)
		}
		s.process(0)
	}
	return nil
}

type spkSnapshot struct {
	L2       map[string][]layer2.VerifAdv
	Sessions map[string][]string
	PeersFor map[string][]string
}

func (s *spkSim) snapshot(keys []string) spkSnapshot {
	sn := spkSnapshot{L2: s.ann.VerifSnapshot(), Sessions: map[string][]string{}, PeersFor: map[string][]string{}}
	for name, ads := range s.rec.live {
		set := map[string]bool{}
		for _, a := range ads {
			set[adString(a)] = true
		}
		sn.Sessions[name] = keysOf(set)
	}
	for _, k := range keys {
		p := s.bgpc.PeersForService(k)
		if len(p) > 0 {
			var l []string
			for x := range p {
				l = append(l, x)
			}
			sort.Strings(l)
			sn.PeersFor[k] = l
		}
	}
	return sn
}

// ---- the run ---------------------------------------------------------------------

type spkRun struct {
	c            spkCase
	tr           *vw.Trace
	w            *vw.World
	sl           *vfSpeakerList
	cl           vw.ClusterSpec
	sim          *spkSim
	svcs         []*spkSvc // live services in creation order
	ever         map[string]bool
	alive        []bool
	j05          bool
	j09          bool
	j13          bool   // judge the interface scope of every layer-2 announcement against the closed form
	freshRunning bool   // the reference speakers are being fed: no injected faults
	sliceFail    []bool // outcomes of the next EndpointSlice lists of the speaker under test
}

func (r *spkRun) setMembers(alive []bool) {
	r.alive = alive
	r.sl.info.Nodes = map[string]bool{}
	for i, n := range r.cl.Nodes {
		if i < len(alive) && alive[i] {
			r.sl.info.Nodes[n.Name] = true
		}
	}
}

func (r *spkRun) writeSvc(s *spkSvc) {
	obj := r.w.Service(s.Spec.NS, s.Spec.Name)
	if obj == nil {
		obj = s.Spec.Object(0)
		r.w.Services = append(r.w.Services, obj)
	} else {
		s.Spec.Apply(obj, 0)
	}
	r.w.Stamp(obj)
	obj.Status.LoadBalancer.Ingress = nil
	for _, ip := range s.IPs {
		// the API accepts any spelling of an address: every other service records its IPv6 addresses in upper case
		// (same address, other text); the model keeps the canonical form
		if n := s.Spec.Name; strings.Contains(ip, ":") && len(n) > 0 && n[len(n)-1]%2 == 1 {
			ip = strings.ToUpper(ip)
		}
		obj.Status.LoadBalancer.Ingress = append(obj.Status.LoadBalancer.Ingress, v1.LoadBalancerIngress{IP: ip})
	}
	// slices
	var keep []*discovery.EndpointSlice
	for _, sl := range r.w.Slices {
		if sl.Labels["kubernetes.io/service-name"] != s.Spec.Name {
			keep = append(keep, sl)
		}
	}
	r.w.Slices = keep
	for i, ss := range s.Slices {
		ss.Svc, ss.NS, ss.Name = s.Spec.Name, s.Spec.NS, fmt.Sprintf("%s-%d", s.Spec.Name, i)
		cr := ss.CR()
		r.w.Slices = append(r.w.Slices, &cr)
	}
	r.sim.enqueue(s.Spec.Key())
}

// fixStatuses plays the MetalLB controller: a recorded address that is in no pool of the configuration is withdrawn.
func (r *spkRun) fixStatuses() {
	for _, s := range r.svcs {
		if len(s.IPs) == 0 {
			continue
		}
		var as []netip.Addr
		for _, ip := range s.IPs {
			as = append(as, vw.MustAddr(ip))
		}
		if r.cl.PoolOf(as) == nil {
			s.IPs = nil
			r.writeSvc(s)
		}
	}
}

func (r *spkRun) svcAt(i int) *spkSvc {
	if len(r.svcs) == 0 {
		return nil
	}
	return r.svcs[i%len(r.svcs)]
}

func (r *spkRun) keys() []string {
	var out []string
	for k := range r.ever {
		out = append(out, k)
	}
	sort.Strings(out)
	return out
}

// expected is C05's closed form: per live peer the set of offered routes, and per service its peers.
func (r *spkRun) expected() (map[string][]string, map[string][]string, bool) {
	me := r.cl.Nodes[0] // node object as the node reconciler delivered it
	for _, n := range r.cl.Nodes {
		if n.Name == spkMe {
			me = n
		}
	}
	cfg := r.sim.cfgSeen // the configuration the speaker runs with
	meCfg := me          // node labels as of that configuration (advertisement node selection is resolved at parse time)
	for _, n := range cfg.Nodes {
		if n.Name == spkMe {
			meCfg = n
		}
	}
	sessions := map[string]map[string]bool{}
	for _, p := range cfg.Peers {
		if vw.AnyMatches(p.NodeSel, me.AllLabels()) {
			sessions[p.Name] = map[string]bool{}
		}
	}
	svcPfx := map[string]map[string]bool{} // service -> prefixes it produces (for any peer)
	offeredPfx := map[string]map[string]bool{}
	interesting := false
	for _, s := range r.svcs {
		if s.Spec.Type != vw.TypeLoadBalancer || len(s.IPs) == 0 {
			continue
		}
		var as []netip.Addr
		for _, ip := range s.IPs {
			as = append(as, vw.MustAddr(ip))
		}
		p := cfg.PoolOf(as)
		if p == nil {
			continue
		}
		// advertisements of the pool that select this node
		var advs []vw.BGPAdvSpec
		for _, a := range cfg.BGP {
			if targets(a.Pools, a.PoolSel, *p) && vw.AnyMatches(a.NodeSel, meCfg.AllLabels()) {
				advs = append(advs, a)
			}
		}
		// C10: is the service announced over BGP from this node?
		if len(advs) == 0 || me.Unavailable || (me.Excluded && !r.c.Ignore) {
			continue
		}
		ready, onMe := map[string]bool{}, map[string]bool{}
		for _, sl := range s.Slices {
			for _, e := range sl.Endpoints {
				for _, a := range e.Addrs {
					if v, ok := ready[a]; ok {
						ready[a] = v && e.CanServe()
					} else {
						ready[a] = e.CanServe()
					}
					if e.Node == spkMe {
						onMe[a] = true
					}
				}
			}
		}
		ok := false
		for a, rd := range ready {
			if rd && (!s.Spec.Local || onMe[a]) {
				ok = true
			}
		}
		if !ok {
			continue
		}
		k := s.Spec.Key()
		svcPfx[k] = map[string]bool{}
		for _, a := range as {
			for _, adv := range advs {
				bits := adv.AggV6()
				if a.Is4() {
					bits = adv.AggV4()
				}
				pfx, _ := a.Prefix(bits)
				var cs []string
				for _, c := range adv.Communities {
					cs = append(cs, spkNormComm(cfg, c))
				}
				sort.Strings(cs)
				route := fmt.Sprintf("%s lp=%d comm=%s", pfx.String(), adv.LocalPref, strings.Join(cs, ","))
				svcPfx[k][pfx.String()] = true
				if bits < a.BitLen() || len(adv.Peers) > 0 {
					interesting = true
				}
				for name := range sessions {
					if len(adv.Peers) > 0 && !contains(adv.Peers, name) {
						continue
					}
					sessions[name][route] = true
					if offeredPfx[name] == nil {
						offeredPfx[name] = map[string]bool{}
					}
					offeredPfx[name][pfx.String()] = true
				}
			}
		}
	}
	outS := map[string][]string{}
	for n, m := range sessions {
		outS[n] = keysOf(m)
	}
	outP := map[string][]string{}
	for k, pf := range svcPfx {
		var ps []string
		for n := range sessions {
			for x := range pf {
				if offeredPfx[n][x] {
					ps = append(ps, n)
					break
				}
			}
		}
		sort.Strings(ps)
		if len(ps) > 0 {
			outP[k] = ps
		}
	}
	return outS, outP, interesting && len(sessions) >= 2
}

// spkNormComm: what a community string of an advertisement stands for - an alias of a Community CR is looked up
// first (also when its name looks like a literal), numbers are decimal whatever their leading zeros.
func spkNormComm(cfg vw.ClusterSpec, c string) string {
	for _, cr := range cfg.Comms {
		for _, a := range cr.Aliases {
			if a[0] == c {
				c = a[1]
			}
		}
	}
	c = strings.TrimPrefix(c, "large:")
	parts := strings.Split(c, ":")
	for i, p := range parts {
		if n, err := strconv.ParseUint(p, 10, 32); err == nil {
			parts[i] = strconv.FormatUint(n, 10)
		}
	}
	return strings.Join(parts, ":")
}

func contains(l []string, x string) bool {
	for _, y := range l {
		if y == x {
			return true
		}
	}
	return false
}

func targets(names []string, sels []vw.Sel, p vw.PoolSpec) bool {
	if len(names) == 0 && len(sels) == 0 {
		return true
	}
	if contains(names, p.Name) {
		return true
	}
	for _, s := range sels {
		if s.Matches(p.Labels) {
			return true
		}
	}
	return false
}

func (r *spkRun) atQuiescence(label string) *vw.Violation {
	if len(r.sim.rec.errs) > 0 {
		return vw.Violationf("session-misuse", "%s: %v", label, r.sim.rec.errs)
	}
	if !r.sim.hasCfg {
		return nil
	}
	if _, err := verifcfg.Config(r.cl, config.DontValidate); err != nil {
		r.tr.Class("store-holds-invalid-configuration")
		return nil // the speaker keeps its previous configuration; a fresh one would have none: not comparable
	}
	got := r.sim.snapshot(r.keys())
	if r.j05 {
		wantS, wantP, interesting := r.expected()
		if interesting {
			r.tr.NonTrivial()
		}
		if !reflect.DeepEqual(normalize(got.Sessions), normalize(wantS)) {
			return vw.Violationf("bgp-routes-differ", "%s: routes offered per peer %v, expected %v", label, got.Sessions, wantS)
		}
		// every live session was created with the parameters of its own peer
		for _, p := range r.sim.cfgSeen.Peers {
			par, live := r.sim.rec.params[p.Name]
			if _, ok := r.sim.rec.live[p.Name]; !ok || !live {
				continue
			}
			rid := ""
			if par.RouterID != nil {
				rid = par.RouterID.String()
			}
			if rid != p.RouterID || par.PeerASN != p.ASN || par.MyASN != p.MyASN || par.PeerAddress != p.Address || par.Password != p.WantPassword() {
				return vw.Violationf("session-parameters", "%s: the session of peer %s was created with router id %q, ASNs %d/%d, address %s, password %q; the peer is configured with router id %q, ASNs %d/%d, address %s, password %q",
					label, p.Name, rid, par.MyASN, par.PeerASN, par.PeerAddress, par.Password, p.RouterID, p.MyASN, p.ASN, p.Address, p.WantPassword())
			}
		}
		if m := r.sim.rec.mutated(); m != "" {
			return vw.Violationf("advertisement-mutated-after-set", "%s: %s", label, m)
		}
		if r.sim.rec.extra != r.sim.cfgSeen.Extras {
			return vw.Violationf("bgp-extras", "%s: the BGP backend was last given the extra configuration %q, the accepted configuration carries %q", label, r.sim.rec.extra, r.sim.cfgSeen.Extras)
		}
		if !reflect.DeepEqual(got.PeersFor, wantP) {
			return vw.Violationf("bgp-peers-for-service", "%s: PeersForService reports %v, expected %v (routes per peer %v)", label, got.PeersFor, wantP, got.Sessions).WithSig(peersSig(got.PeersFor, wantP, got.Sessions))
		}
	}
	if r.j13 {
		// an announced address is answered on exactly the interfaces of the L2 advertisements of its pool that
		// select this node: all interfaces if one of them has no interface list, else the union of the lists
		cfg := r.sim.cfgSeen
		var labels map[string]string
		for _, n := range cfg.Nodes {
			if n.Name == spkMe {
				labels = n.AllLabels()
			}
		}
		for svc, advs := range got.L2 {
			for _, adv := range advs {
				p := cfg.PoolOf([]netip.Addr{vw.MustAddr(adv.IP)})
				if p == nil {
					continue
				}
				all, sel := false, false
				ifs := map[string]bool{}
				for _, a := range cfg.L2 {
					if !targets(a.Pools, a.PoolSel, *p) || !vw.AnyMatches(a.NodeSel, labels) {
						continue
					}
					sel = true
					if len(a.Interfaces) == 0 {
						all = true
					}
					for _, f := range a.Interfaces {
						ifs[f] = true
					}
				}
				if !sel {
					continue // eligibility is judged elsewhere
				}
				var want []string
				if !all {
					for f := range ifs {
						want = append(want, f)
					}
					sort.Strings(want)
				}
				r.tr.Class("l2-interface-scope-compared")
				if adv.All != all || (!all && fmt.Sprint(adv.Ifs) != fmt.Sprint(want)) {
					return vw.Violationf("l2-interface-scope", "%s: %s announces %s on all=%v %v, the advertisements that select this node give all=%v %v", label, svc, adv.IP, adv.All, adv.Ifs, all, want)
				}
			}
		}
	}
	if r.j09 {
		r.freshRunning = true
		defer func() { r.freshRunning = false }()
		for variant := 0; variant < 2; variant++ {
			f := newSpkSim(r.w, r.sl, r.c.Ignore)
			var order []string
			for _, n := range r.w.Nodes {
				order = append(order, "node:"+n.Name)
			}
			if variant == 0 {
				order = append(order, "config")
			} else {
				order = append([]string{"config"}, order...)
			}
			for _, s := range r.w.Services {
				order = append(order, s.Namespace+"/"+s.Name)
			}
			for _, o := range order {
				f.enqueue(o)
			}
			f.enqueue("reload")
			if v := f.settle(); v != nil {
				return v
			}
			fresh := f.snapshot(r.keys())
			if !reflect.DeepEqual(got.L2, fresh.L2) {
				sig := l2Sig(got.L2, fresh.L2)
				// does one more full re-sync bring the history instance in line? then the defect is a missing re-sync request
				r.sim.enqueue("reload")
				if v := r.sim.settle(); v == nil {
					if again := r.sim.snapshot(r.keys()); reflect.DeepEqual(again.L2, fresh.L2) {
						sig = fmt.Sprintf("l2-stale-until-next-resync:memberlist-disabled=%v:node-first-seen-after-services=%v", r.c.Disabled, r.sim.lateNew)
					}
				}
				v := vw.Violationf("l2-announcements-depend-on-history", "%s: after the history the announcer holds %v, a fresh speaker (start order %d) holds %v", label, got.L2, variant, fresh.L2).WithSig(sig)
				if id := vw.KnownID("C09", v); id != "" {
					r.tr.Known(id)
					return nil
				}
				return v
			}
			if !reflect.DeepEqual(normalize(got.Sessions), normalize(fresh.Sessions)) {
				return vw.Violationf("bgp-routes-depend-on-history", "%s: after the history the sessions offer %v, a fresh speaker (start order %d) offers %v", label, got.Sessions, variant, fresh.Sessions)
			}
			if !reflect.DeepEqual(got.PeersFor, fresh.PeersFor) {
				return vw.Violationf("bgp-peers-depend-on-history", "%s: PeersForService %v vs fresh speaker %v", label, got.PeersFor, fresh.PeersFor).WithSig("peers-for-service-stale")
			}
		}
	}
	if r.j05 {
		// re-processing everything once more without any change must hand every session the very same request
		// (order of communities included): otherwise the backend sees a "new" configuration and reloads
		before := r.sim.rec.requests()
		r.sim.enqueue("reload")
		if v := r.sim.settle(); v != nil {
			return v
		}
		if after := r.sim.rec.requests(); !reflect.DeepEqual(before, after) {
			return vw.Violationf("resubmission-differs", "%s: a full re-sync of the unchanged state changed what is requested on the sessions: before %v, after %v", label, before, after)
		}
	}
	return nil
}

func normalize(m map[string][]string) map[string][]string {
	out := map[string][]string{}
	for k, v := range m {
		out[k] = append([]string{}, v...)
	}
	return out
}

func peersSig(got, want map[string][]string, sessions map[string][]string) string {
	for k, g := range got {
		for _, p := range g {
			if _, live := sessions[p]; !live {
				return "peers-for-service-names-closed-session"
			}
		}
		_ = k
	}
	return "peers-for-service"
}

func l2Sig(hist, fresh map[string][]layer2.VerifAdv) string {
	for k, h := range hist {
		f, ok := fresh[k]
		if !ok {
			return "l2-stale-announcement"
		}
		if !reflect.DeepEqual(h, f) {
			return "l2-announcement-differs"
		}
	}
	return "l2-missing-announcement"
}

func runSpk(c spkCase, tr *vw.Trace, j05, j09 bool, extra ...string) *vw.Violation {
	j18 := len(extra) > 0 && extra[0] == "c18"
	j08 := len(extra) > 0 && extra[0] == "c08"
	r13 := len(extra) > 0 && extra[0] == "c13"
	r := &spkRun{c: c, tr: tr, w: vw.NewWorld(), sl: &vfSpeakerList{info: speakerlist.SpeakerListInfo{Disabled: c.Disabled, Nodes: map[string]bool{}}}, ever: map[string]bool{}, j05: j05, j09: j09}
	r.j13 = r13
	if c.LBClass {
		r.w.LBClass = "verif.example/metallb"
		tr.Class("running-with-lb-class")
	}
	r.cl = c.Cluster
	r.w.SetCluster(r.cl)
	r.setMembers(c.Alive)
	r.sim = newSpkSim(r.w, r.sl, c.Ignore)
	r.sim.current = func() vw.ClusterSpec { return r.cl }
	r.w.ServiceReadFault = func(kind string) error {
		if kind != "slices" || len(r.sliceFail) == 0 || r.freshRunning {
			return nil
		}
		f := r.sliceFail[0]
		r.sliceFail = r.sliceFail[1:]
		if f {
			return fmt.Errorf("verif: injected read failure")
		}
		return nil
	}
	r.sim.enqueue("config")
	for _, n := range r.cl.Nodes {
		r.sim.enqueue("node:" + n.Name)
	}
	withdraw := false
	for i, op := range c.Ops {
		label := fmt.Sprintf("op %d (%s)", i, op.Kind)
		switch op.Kind {
		case "svc-create":
			s := *op.New
			r.svcs = append(r.svcs, &s)
			r.ever[s.Spec.Key()] = true
			r.writeSvc(&s)
			r.fixStatuses()
		case "svc-ips":
			if s := r.svcAt(op.Svc); s != nil {
				if len(s.IPs) > 0 {
					withdraw = true
					tr.Class("address-changed-or-cleared")
				}
				if op.Narrow == 3 && len(s.IPs) == 2 {
					old, repl := s.IPs[1], ""
					for _, cands := range spkAddrs {
						for i, c := range cands {
							if c != old || repl != "" {
								continue
							}
							for j := 1; j < len(cands); j++ { // the next candidate of the same family in that pool
								if n := cands[(i+j)%len(cands)]; strings.Contains(n, ":") == strings.Contains(c, ":") && n != c && n != s.IPs[0] {
									repl = n
									break
								}
							}
						}
					}
					if repl != "" {
						s.IPs = []string{s.IPs[0], repl}
						tr.Class("second-address-replaced")
					}
				} else if op.Narrow > 0 && op.Narrow < 3 && len(s.IPs) == 2 {
					s.IPs = []string{s.IPs[op.Narrow-1]}
					tr.Class("dual-stack-service-narrowed")
				} else {
					s.IPs = op.New.IPs
				}
				r.writeSvc(s)
				r.fixStatuses()
			}
		case "svc-type":
			if s := r.svcAt(op.Svc); s != nil {
				s.Spec.Type = 1 - s.Spec.Type
				withdraw = true
				tr.Class("type-changed")
				r.writeSvc(s)
			}
		case "svc-policy":
			if s := r.svcAt(op.Svc); s != nil {
				s.Spec.Local = !s.Spec.Local
				r.writeSvc(s)
			}
		case "svc-slices":
			if s := r.svcAt(op.Svc); s != nil {
				s.Slices = op.New.Slices
				tr.Class("endpoints-changed")
				withdraw = true
				r.writeSvc(s)
			}
		case "svc-delete":
			if s := r.svcAt(op.Svc); s != nil {
				r.w.DeleteService(s.Spec.NS, s.Spec.Name)
				for j, x := range r.svcs {
					if x == s {
						r.svcs = append(r.svcs[:j:j], r.svcs[j+1:]...)
						break
					}
				}
				withdraw = true
				tr.Class("service-deleted")
				r.sim.enqueue(s.Spec.Key())
			}
		case "node":
			n := *op.Node
			found := false
			var before vw.NodeSpec
			ns := append([]vw.NodeSpec(nil), r.cl.Nodes...)
			for j := range ns {
				if ns[j].Name == n.Name {
					before = ns[j]
					ns[j] = n
					found = true
				}
			}
			if !found {
				ns = append(ns, n)
				tr.Class("node-added")
			}
			r.cl.Nodes = ns
			r.w.SetCluster(r.cl)
			r.setMembers(append(r.alive, true)[:len(ns)])
			// the reconcilers are only woken by the events their filters let through (creations always)
			toNode, toConfig := true, true
			if found {
				ocr, ncr := before.CR(), n.CR()
				toNode = controllers.NodeReconcilerPredicate().Update(event.UpdateEvent{ObjectOld: &ocr, ObjectNew: &ncr})
				toConfig = controllers.VerifConfigUpdatePasses(&ocr, &ncr)
			}
			if toNode {
				r.sim.enqueue("node:" + n.Name)
			} else {
				tr.Class("node-update-filtered-for-node-reconciler")
			}
			if toConfig {
				r.sim.enqueue("config")
			}
			withdraw = true
			tr.Class("node-changed")
		case "config":
			n := *op.Cluster
			n.Nodes = r.cl.Nodes
			r.cl = n
			r.w.SetCluster(r.cl)
			r.fixStatuses()
			r.sim.enqueue("config")
			withdraw = true
			tr.Class("config-changed")
		case "members":
			r.setMembers(op.Alive)
			r.sim.enqueue("reload") // speakerlist forces a sync on membership changes
			tr.Class("membership-changed")
		case "step":
			if len(r.sim.pending) > 0 {
				r.sim.process(op.Pick % len(r.sim.pending))
			}
		case "failreads":
			r.sliceFail = append(r.sliceFail, op.Fail...)
			tr.Class("endpoint-slice-reads-failing")
		case "settle":
			if v := r.sim.settle(); v != nil {
				return v
			}
			if v := r.atQuiescence(label); v != nil {
				return v
			}
			if j08 && r.sim.hasCfg && r.sim.lastCfgOK {
				// the configuration the speaker runs with must be the conversion of what the store holds now (all nodes,
				// all namespaces, current labels): nothing is pending, so no change may still be on its way
				if want, err := verifcfg.Config(r.cl, config.DontValidate); err == nil {
					tr.Class("running-configuration-compared-with-store")
					tr.NonTrivial()
					if have := r.sim.c.config; have == nil || !reflect.DeepEqual(want, have) {
						return vw.Violationf("running-configuration-differs-from-store", "%s: nothing is pending and the store holds a valid configuration, but the speaker runs with a different one: %s", label, c08Diff(want, have))
					}
				}
			}
			if j18 && r.sim.hasCfg && r.sim.lastCfgOK {
				// one more reconcile of the unchanged store: the speaker that announced services out of the remembered
				// configuration must not be handed that configuration again
				before := r.sim.cfgCalls
				r.sim.enqueue("config")
				if v := r.sim.settle(); v != nil {
					return v
				}
				if r.sim.cfgCalls != before {
					return vw.Violationf("unchanged-configuration-reloaded", "%s: reconciling the unchanged resources again delivered the configuration to the speaker %d more time(s)", label, r.sim.cfgCalls-before)
				}
				tr.Class("unchanged-configuration-not-reloaded")
				tr.NonTrivial()
			}
		}
		if os.Getenv("VERIF_TRACE") != "" {
			sn := r.sim.snapshot(r.keys())
			fmt.Fprintf(os.Stderr, "TRACE %s pending=%v members=%v\n      L2=%v\n      sessions=%v peersFor=%v\n", label, r.sim.pending, r.sl.info, sn.L2, sn.Sessions, sn.PeersFor)
		}
	}
	if withdraw && j09 {
		tr.NonTrivial()
	}
	return nil
}

var spkAssumptions = []string{
	"statuses are controller-consistent: an address that is in no pool of the current configuration is withdrawn by the (simulated) MetalLB controller",
	"an endpoint address lives on one node",
	"the speaker under test runs on node0; local interfaces are ifA and ifB",
	"membership changes are followed by the forced sync the real speaker list issues",
}

const spkRule = "1..3 pools (/24, /28, /124 with label sets), 1..4 nodes, 0..2 L2 advertisements (node/pool selectors, interface lists), 0..3 peers with node selectors, 0..3 BGP advertisements (aggregation lengths, localpref, legacy/large communities, peer lists, node/pool selectors); 3..25 ops: service create / address change / type / policy / endpoint slices / delete, node change or add, configuration change (pool set, rename, advertisements and peers), membership change, scheduled single reconciliations, run-to-quiescence"

func TestVerifC05Spk(t *testing.T) {
	vw.Run(t, vw.Options{Property: "C05", Engine: "speaker", Rule: spkRule + "; at every quiescence the last Set on every live recording session and PeersForService are compared with the closed form (computed from the configuration the speaker accepted) and with freshly started speakers fed the final store (so a configuration change the speaker never took up shows); non-trivial = >=2 live peers and an advertisement with a peer list or a proper aggregation length on an announced service, or a withdraw-causing event happened", Assumptions: spkAssumptions},
		genSpkCase, func(c spkCase, tr *vw.Trace) *vw.Violation { return runSpk(c, tr, true, true) })
}

func TestVerifC09Spk(t *testing.T) {
	vw.Run(t, vw.Options{Property: "C09", Engine: "speaker", Rule: spkRule + "; at every quiescence two freshly constructed speakers (nodes-then-config and config-then-nodes) are fed the final store and must hold the same layer-2 announcements, per-session routes and per-service peers; non-trivial = a withdraw-causing event happened", Assumptions: spkAssumptions},
		genSpkCase, func(c spkCase, tr *vw.Trace) *vw.Violation { return runSpk(c, tr, false, true) })
}

// Witnesses of the known findings of the speaker engine (committed under /verif/witness).
func TestVerifSpkWitness(t *testing.T) {
	vw.RunWitnesses(t, vw.Options{Property: "C09", Engine: "speaker-witness", Rule: "committed witness histories of the known findings"}, "TestVerifC09Spk",
		func(c spkCase, tr *vw.Trace) *vw.Violation { return runSpk(c, tr, false, true) })
}

// C10 and C12 on stateful speakers (the decisions must also hold after histories, not only as pure functions).
func TestVerifC10Spk(t *testing.T) {
	vw.Run(t, vw.Options{Property: "C10", Engine: "speaker", Rule: spkRule + "; at every quiescence routes for a service are present on the sessions iff the closed-form eligibility of the statement holds for this node (closed form over the configuration the speaker accepted), and equal those of freshly started speakers fed the final store; non-trivial as C05", Assumptions: spkAssumptions},
		genSpkCase, func(c spkCase, tr *vw.Trace) *vw.Violation { return runSpk(c, tr, true, true) })
}

func TestVerifC12Spk(t *testing.T) {
	vw.Run(t, vw.Options{Property: "C12", Engine: "speaker", Rule: spkRule + "; at every quiescence the layer-2 announcements of the speaker that lived through the history must equal those of freshly started speakers (the choice depends on the eligible nodes and the address only, not on what the speaker announced before); non-trivial = a withdraw-causing event happened", Assumptions: spkAssumptions},
		genSpkCase, func(c spkCase, tr *vw.Trace) *vw.Violation { return runSpk(c, tr, false, true) })
}

func TestVerifC04Spk(t *testing.T) {
	vw.Run(t, vw.Options{Property: "C04", Engine: "speaker", Rule: spkRule + "; at every quiescence the addresses this speaker answers for must equal those of freshly started speakers evaluating the same final view (the single-announcer decision must survive node-condition, label, membership and configuration histories, not only hold as a pure function of a view); non-trivial = a withdraw-causing event happened", Assumptions: spkAssumptions},
		genSpkCase, func(c spkCase, tr *vw.Trace) *vw.Violation { return runSpk(c, tr, false, true) })
}

func TestVerifC13Spk(t *testing.T) {
	vw.Run(t, vw.Options{Property: "C13", Engine: "speaker", Rule: spkRule + "; at every quiescence the addresses (and interface scopes) the real announcer of this speaker holds - which is what its ARP/NDP responders answer for - must equal those of freshly started speakers (the node answers for an address only while a service it currently announces holds it), and the interface scope of every announcement must be that of the L2 advertisements selecting this node (all interfaces, or the union of their interface lists); non-trivial = a withdraw-causing event happened", Assumptions: spkAssumptions},
		genSpkCase, func(c spkCase, tr *vw.Trace) *vw.Violation { return runSpk(c, tr, false, true, "c13") })
}

func TestVerifC18Spk(t *testing.T) {
	vw.Run(t, vw.Options{Property: "C18", Engine: "speaker", Rule: spkRule + "; at every quiescence the resources are reconciled once more from the unchanged store: the real ConfigReconciler must not deliver the configuration to the real speaker again (nothing the speaker does with the configuration it was given may make the next computation look different); non-trivial = such a reconcile happened after an accepted configuration", Assumptions: spkAssumptions},
		genSpkCase, func(c spkCase, tr *vw.Trace) *vw.Violation { return runSpk(c, tr, false, false, "c18") })
}

func c08Diff(want, have *config.Config) string {
	if have == nil {
		return "none"
	}
	for name, wp := range want.Pools.ByName {
		hp := have.Pools.ByName[name]
		if hp == nil {
			return "pool " + name + " missing"
		}
		if !reflect.DeepEqual(wp, hp) {
			d := fmt.Sprintf("pool %s differs", name)
			for i := range wp.L2Advertisements {
				if i < len(hp.L2Advertisements) && !reflect.DeepEqual(wp.L2Advertisements[i].Nodes, hp.L2Advertisements[i].Nodes) {
					d += fmt.Sprintf("; L2 advertisement %d nodes: store %v, speaker %v", i, wp.L2Advertisements[i].Nodes, hp.L2Advertisements[i].Nodes)
				}
			}
			for i := range wp.BGPAdvertisements {
				if i < len(hp.BGPAdvertisements) && !reflect.DeepEqual(wp.BGPAdvertisements[i].Nodes, hp.BGPAdvertisements[i].Nodes) {
					d += fmt.Sprintf("; BGP advertisement %d nodes: store %v, speaker %v", i, wp.BGPAdvertisements[i].Nodes, hp.BGPAdvertisements[i].Nodes)
				}
			}
			if len(wp.L2Advertisements) != len(hp.L2Advertisements) || len(wp.BGPAdvertisements) != len(hp.BGPAdvertisements) {
				d += fmt.Sprintf("; advertisements: store %d L2 / %d BGP, speaker %d / %d", len(wp.L2Advertisements), len(wp.BGPAdvertisements), len(hp.L2Advertisements), len(hp.BGPAdvertisements))
			}
			return d
		}
	}
	if len(want.Pools.ByName) != len(have.Pools.ByName) {
		return fmt.Sprintf("%d pools in the store, %d in the speaker", len(want.Pools.ByName), len(have.Pools.ByName))
	}
	if !reflect.DeepEqual(want.Peers, have.Peers) {
		return "peers differ"
	}
	return "other fields differ"
}

// C08 on the running speaker: the accepted configuration is the conversion of the current store.
func TestVerifC08Spk(t *testing.T) {
	vw.Run(t, vw.Options{Property: "C08", Engine: "speaker", Rule: spkRule + "; events reach the reconcilers through their real update filters; at every quiescence with an accepted configuration and a valid store the configuration the speaker runs with must equal config.For of the store (pools, advertisements attached to exactly the nodes their selectors match now, peers); non-trivial = such a comparison happened", Assumptions: spkAssumptions},
		genSpkCase, func(c spkCase, tr *vw.Trace) *vw.Violation { return runSpk(c, tr, false, false, "c08") })
}

// C14 / C15 end to end: the backends (judged by their own engines) translate what is requested on each session;
// this engine judges the first half - that the speaker requests on each session exactly what the configuration
// and the announced services call for, whatever history it lived through.
func TestVerifC14Spk(t *testing.T) {
	vw.Run(t, vw.Options{Property: "C14", Engine: "speaker-requests", Rule: spkRule + "; at every quiescence the advertisements last requested on every live session (prefix, local preference, communities, per-peer filtering) are compared with the closed form and with freshly started speakers; a session the speaker re-created must have been given its advertisements again; non-trivial as C05", Assumptions: spkAssumptions},
		genSpkCase, func(c spkCase, tr *vw.Trace) *vw.Violation { return runSpk(c, tr, true, true) })
}

func TestVerifC15Spk(t *testing.T) {
	vw.Run(t, vw.Options{Property: "C15", Engine: "speaker-requests", Rule: spkRule + "; as C14 speaker-requests: what the speaker requests on each session is what the frr-k8s backend is asked to express; non-trivial as C05", Assumptions: spkAssumptions},
		genSpkCase, func(c spkCase, tr *vw.Trace) *vw.Violation { return runSpk(c, tr, true, true) })
}

// C16 / C17 end to end: the native backend encodes what it is given (judged by its own engines); this engine
// judges that the speaker gives each session the intended content (communities of its own advertisement, router
// id of its own peer).
func TestVerifC16Spk(t *testing.T) {
	vw.Run(t, vw.Options{Property: "C16", Engine: "speaker-requests", Rule: spkRule + "; at every quiescence the advertisements requested on every live session (prefix, local preference, communities incl. aliases and zero-padded literals) and the parameters every session was created with (router id, ASNs, address, password) are compared with the closed form; non-trivial as C05", Assumptions: spkAssumptions},
		genSpkCase, func(c spkCase, tr *vw.Trace) *vw.Violation { return runSpk(c, tr, true, true) })
}

// C17 end to end (front half): the native session converges to what was last requested on it; this engine judges that
// the speaker really requests a changed route again (fresh objects - the session keeps the ones it was given and
// compares later requests with them).
func TestVerifC17Spk(t *testing.T) {
	vw.Run(t, vw.Options{Property: "C17", Engine: "speaker-requests", Rule: spkRule + "; at every quiescence the advertisements requested on every live session are compared with the closed form and with fresh speakers, and no advertisement object may have changed after it was handed to Set; non-trivial as C05", Assumptions: spkAssumptions},
		genSpkCase, func(c spkCase, tr *vw.Trace) *vw.Violation { return runSpk(c, tr, true, true) })
}

// C19 end to end (front half): a resubmission of an unchanged state must be identical, or the backend reloads.
func TestVerifC19Spk(t *testing.T) {
	vw.Run(t, vw.Options{Property: "C19", Engine: "speaker-resubmission", Rule: spkRule + "; at every quiescence everything is re-processed once more without any change: every session must be handed exactly the same request (order of communities included) and the same extra configuration, and what was requested must match the closed form (a withdrawn extra configuration must be submitted as withdrawn); non-trivial as C05", Assumptions: spkAssumptions},
		genSpkCase, func(c spkCase, tr *vw.Trace) *vw.Violation { return runSpk(c, tr, true, true) })
}
