#!/bin/bash
# usage: ROUND=<r> mutround.sh <ID> <k>  -- reads /tmp/mut-<ID>-r<r>/<k>/demo.env, confirms the change in the scratch worktree,
# then (if confirmed) applies it to /repo, runs the quick check and reverts.
ID=$1; K=$2; SFX=${ROUND:+-r$ROUND}; M=/tmp/mut-$ID$SFX/$K
[ -f $M/demo.env ] || { echo "no demo.env in $M"; exit 3; }
PKG=$(grep '^PKG=' $M/demo.env | cut -d= -f2-); RUN=$(grep '^RUN=' $M/demo.env | cut -d= -f2-); R=$(grep '^RACE=' $M/demo.env | cut -d= -f2-)
PKG=${PKG#./}; PKG=${PKG%/}
EX=.
case $PKG in internal/bgp/frr) EX=TestNothing;; internal/k8s/controllers) EX='Test[^M]';; esac
RACE=$([ "$R" = 1 ] && echo -race) $(dirname $0)/confirm_mut.sh $ID $K $PKG "$RUN" "$EX" | tee /tmp/confirm-$ID-$K.line
grep -q 'exit=[1-9][0-9]* (want !=0), existing tests with patch exit=0 (want 0), demo without patch exit=0' /tmp/confirm-$ID-$K.line || { echo "NOT CONFIRMED $ID/$K"; exit 4; }
$(dirname $0)/trymut.sh $ID $M/patch.diff 2>&1 | grep -E "VIOLATION|KNOWN|trymut|INCONCLUSIVE|evaluations" | cut -c1-300
