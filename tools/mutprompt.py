#!/usr/bin/env python3
"""Prints the prompt given to an independent sub-agent that seeds a property-breaking change."""
import json, sys
pid, n = sys.argv[1], (sys.argv[2] if len(sys.argv) > 2 else "2")
rnd = sys.argv[3] if len(sys.argv) > 3 else ""
p = [json.loads(l) for l in open('/verif/properties.jsonl') if json.loads(l)['id'] == pid][0]
wt = "/tmp/wt-%s%s" % (pid, rnd and "-r"+rnd)
out = "/tmp/mut-%s%s" % (pid, rnd and "-r"+rnd)
hint = " Other reviewers have already tried changes in the most obvious functions named by the property; prefer less obvious sites: helper functions, type and format conversions, caches and memoised values, sort comparators, error and retry paths, rarely used options or fields, defaults, and interactions with what the Kubernetes API server or the peer does." if rnd == "3" else (" Several reviewers have already delivered changes inside the functions and files named by the property. Look further afield: code in OTHER files and packages that the property silently depends on (callers and callees of the listed files, the reconcilers and the work-queue protocol around them, configuration parsing that feeds them, shared helper packages, generated or templated artefacts, what is cached or memoised between events), inputs in rarely used but valid forms, and sequences in which an error or a retry happens in the middle. Avoid changes that need a failing BGP session layer call to manifest." if rnd == "4" else "")
print(f"""You are helping to evaluate a test suite for the Go project metallb/metallb (a bare-metal Kubernetes load-balancer). You have your own scratch git worktree of the repository at {wt} . Work ONLY inside {wt} and {out} (create {out}). Do NOT read or touch /verif or /repo, and do not use the network (there is none).

Here is a semantic property the code base is supposed to satisfy:

TITLE: {p['title']}
STATEMENT: {p['statement']}
QUANTIFIED OVER: {p['quantifier']['text']}
Relevant source files (relative to the repository root): {', '.join(p['anchors']['files'])}

Your task: produce {n} DIFFERENT, realistic changes (mutations / plausible bugs, the kind a developer could introduce in a refactoring or an 'optimisation') to the NON-TEST source code of metallb that each BREAK this property, while the code still compiles and the existing unit tests of the touched packages still pass. Prefer changes that need something specific to manifest - an unusual input, a multi-step sequence of operations, a particular interleaving or fault point, or two cooperating sites that each look fine alone - NOT changes that ordinary use would expose at once, and not changes that simply delete a whole feature. Each change should be small (a few lines).{hint}

For each change k (k = 1..{n}) deliver in {out}/k/ :
  - patch.diff : `git diff` of the change against the worktree HEAD (only non-test source files of metallb);
  - demo_test.go (or a small main program) plus a line in README.md telling exactly where to copy it (which package directory) and the exact command to run it: a demonstration that FAILS with the change applied and PASSES without it;
  - demo.env : exactly three lines `PKG=<package directory relative to the repository root where the demo file is copied>`, `RUN=<regular expression for go test -run selecting the demo test(s)>`, `RACE=<1 if the demo must run under -race, else 0>`; the demo must be a single file named demo_test.go that works when copied into PKG under a different file name;
  - README.md : what the change is, why it breaks the property, what it needs in order to manifest, and the commands you ran with their observed results (existing tests still passing with the change; demo failing with / passing without).

Build/test instructions for this sandbox: run go commands from {wt} with the environment `GOFLAGS=-mod=mod GOPROXY=off` (do NOT set GOTOOLCHAIN or GOSUMDB). Example: `cd {wt} && GOFLAGS=-mod=mod GOPROXY=off go test -vet=off -count=1 ./internal/config/`. The first build takes a while. Never use `git stash` (the stash is shared with other worktrees of the same repository that other people are using right now): to toggle your change, save it with `git diff > file` and use `git apply file` / `git apply -R file`. Some packages have tests that need Docker or etcd and fail for environmental reasons regardless of your change (internal/bgp/frr needs Docker: run it with `-run 'TestNothing'` to only compile; in internal/k8s/controllers the test TestManager needs etcd - ignore that one); compare with the unchanged tree to tell. The packages whose tests matter are those containing the files you touch, plus `./controller/ ./speaker/ ./internal/...` where quick to run.

After finishing, make sure the worktree is back at a clean HEAD (`git -C {wt} checkout -- . && git -C {wt} status --short` prints nothing except possibly your untracked demo files, which you should delete from the worktree) - the deliverables live in {out} only. Finally reply with a short summary: for each change one paragraph (files touched, idea, what it needs to manifest).""")
