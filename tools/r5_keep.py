#!/usr/bin/env python3
"""Round 5 bookkeeping: keeps the confirmed changes of /tmp/mut-<ID>-r5/<k> as seeded/<ID>-<k+12> (via keepmut.py) and prints the DESIGN table rows."""
import os, subprocess, sys
R = {
 ("C01", 1): ("an explicit two-address request (loadBalancerIPs or two recorded addresses re-adopted) whose FIRST address is free and whose second is held by a service it may not share with", "caught by the quick tier as it stood"),
 ("C01", 2): ("a service listing one port number under two protocols (53/TCP + 53/UDP) with a sharing key, and a sharer colliding on the protocol listed second", "caught by the quick tier as it stood"),
 ("C02", 1): ("the same IPv4 block written as a CIDR in one pool and as a first-last range in another (a /32 included)", "initially MISSED: overlapping layouts of the allocator engine never repeated a block in the other notation; twin spellings added, and an accepted configuration whose pools share an address (own interval arithmetic) is reported at once"),
 ("C02", 2): ("PreferDualStack with two cluster IPs, no candidate pool able to give both families, >=2 pinned pools of different priority with a free address of the family", "initially MISSED: the priority rule was only judged when both families were obtained; for a one-family result the pool must still be the best-ranked pinned pool that has a free address of that family"),
 ("C03", 1): ("Local traffic policy, a sharing key, a pod selector of >=2 labels, another service on the address, a few re-syncs", "caught by the quick tier as it stood"),
 ("C03", 2): ("an explicit dual-stack request [free v4, v6 held by a non-sharing service], then a re-sync of the holder", "caught by the quick tier as it stood"),
 ("C04", 1): ("a dual-stack service sharing its first address with a service that holds another address list", "caught by the quick tier as it stood (a signature other than the two listed election-key findings)"),
 ("C04", 2): ("an announced dual-stack service one of whose two addresses is replaced, the node winning again; the released address given to a service elected elsewhere", "caught by the quick tier as it stood"),
 ("C05", 1): ("an IPv6 / dual-stack service, an advertisement with aggregationLengthV6 < 128 and the IPv4 aggregation length left at 32", "caught by the quick tier as it stood"),
 ("C05", 2): ("an advertisement with a peers list none of whose peers has a session on this node (peer node selectors), and another peer on the node", "caught by the quick tier as it stood"),
 ("C06", 1): ("a restart; a PreferDualStack service with one recorded address listed before a dual-stack service whose recorded IPv6 address is the lowest free one", "initially MISSED: the loss was filed under the listed restart-ordering finding (thief had a recorded address); the start-up order handles services with more recorded addresses first, so a holder with FEWER recorded addresses than the victim, at the time the victim is processed, now carries its own signature"),
 ("C06", 2): ("a restart, a recorded address that became inadmissible without leaving its pool (pool gained a namespace restriction), no other pool, the withdrawing status write failing once", "caught by the quick tier as it stood"),
 ("C07", 1): ("sharing keys, an exhausted pool, an assigned service edited tcp/N -> udp/N, a waiter blocked only by the clash on tcp/N", "caught by the quick tier as it stood (protocol-flip mutation of round 4)"),
 ("C07", 2): ("loadBalancerIPs naming an address outside the pool named by the address-pool annotation, and a second service for which that address is the only admissible one", "caught by the quick tier as it stood"),
 ("C08", 1): ("a dual-stack pool and a node InternalIP of the family not listed first inside one of the pool's entries of that family", "caught by the quick tier as it stood"),
 ("C08", 2): ("a dual-stack pool, >=2 BGPAdvertisements with different localPref sharing a node and a peer, aggregation lengths differing in exactly one family", "caught by the quick tier as it stood"),
 ("C09", 1): ("one pool with both an L2 and a BGP advertisement selecting this node, this node the layer-2 owner, then a change of the service's address", "caught by the quick tier as it stood (both-protocols scenario)"),
 ("C09", 2): ("a layer-2 pool on >=2 nodes, another node's NetworkUnavailable / exclude label flipping, no later event for the service", "caught by the quick tier as it stood"),
 ("C10", 1): ("--ignore-exclude-lb, the exclude label on this node, a NetworkUnavailable transition", "caught by the quick tier as it stood"),
 ("C10", 2): ("a BGPAdvertisement whose node selectors match no node at all (two cooperating sites)", "caught by the quick tier as it stood"),
 ("C11", 1): ("an IPv4 pool entry in first-last range notation (16-byte IPNet.IP)", "caught by the quick tier as it stood"),
 ("C11", 2): ("an explicit address request together with an address-pool annotation naming another pool", "caught by the quick tier as it stood"),
 ("C12", 1): ("several L2Advertisements on one pool with differing node selectors, Cluster policy (or endpoints in both node groups)", "caught by the quick tier as it stood"),
 ("C12", 2): ("a dual-stack service recorded IPv6-first, >=2 eligible nodes, a sharer of the IPv6 address", "caught by the quick tier as it stood"),
 ("C13", 2): ("an ARP request whose Ethernet destination is a multicast group address (first octet odd, not broadcast)", "caught by the quick tier as it stood"),
 ("C14", 1): ("one prefix requested twice on one session, once without and once with a local preference", "initially MISSED: the refused-Set histories only used two non-zero values and tolerated acceptance; none/100 and 100/none added, and accepting a request no configuration can honour is now a violation"),
 ("C14", 2): ("the first address of a pool announced both as host route and as the aggregate in one router/VRF (10.20.0.0/32 + 10.20.0.0/24)", "caught by the quick tier as it stood"),
 ("C15", 1): ("one prefix requested twice for a neighbor with another prefix in between", "caught by the quick tier as it stood"),
 ("C15", 2): ("two requested prefixes sharing the network address and differing in length", "caught by the quick tier as it stood"),
 ("C16", 1): ("a NOTIFICATION of announced length 19 or 20 during the handshake, followed by more bytes", "caught by the quick tier as it stood"),
 ("C16", 2): ("a hold time of exactly 0", "caught by the quick tier as it stood"),
 ("C17", 1): ("two requested prefixes with the same network address and different lengths (10.9.1.0/32 and 10.9.1.0/24)", "initially MISSED: no two prefixes of the C17 alphabet shared a network address; one host route replaced"),
 ("C17", 2): ("a session with a source address in 16-byte form and >=1 announced route", "caught by the quick tier as it stood"),
 ("C18", 1): ("a dual-stack pool advertised with an aggregationLength shorter than its IPv4 prefix and a valid aggregationLengthV6 (map iteration order decides)", "caught by the quick tier as it stood"),
 ("C18", 2): ("a BGPPeer using passwordSecret, a same-named Secret in another namespace, another listing order", "initially MISSED: no peer of the cluster generators kept its password in a Secret; such peers added, each with a same-named decoy Secret in another namespace, and the reconciler engine lists the secrets in another order on every re-reconcile"),
 ("C19", 1): ("A applied, B written but its reload failing, A resubmitted during the retry wait (or a re-apply request followed by the identical configuration)", "caught by the quick tier as it stood"),
 ("C19", 2): ("a BFD profile set replaced by one of the same size (one timer edited)", "caught by the quick tier as it stood"),
 ("C20", 1): ("a status fetch overlapping a handler call that queues for the announcer's write lock (re-entrant read lock)", "caught by the quick tier as it stood"),
 ("C20", 2): ("a pool removed / renamed while a service still holds an address of it, concurrently with the pool-status fetcher", "caught by the quick tier as it stood"),
}
if len(sys.argv) > 1 and sys.argv[1] == "keep":
    os.environ["ROUND"] = "5"
    for (pid, k), (needs, note) in sorted(R.items()):
        subprocess.check_call(["/verif/tools/keepmut.py", pid, str(k), "yes", needs, note], env=os.environ)
else:
    for (pid, k), (needs, note) in sorted(R.items()):
        print("| %s-%d | %s | yes | %s |" % (pid, k + 12, needs, note))
