#!/bin/bash
# usage: allmut_par.sh <jobs> <ID>...  -- re-runs every kept change of the given properties against scratch worktrees of
# /repo (VERIF_REPO), <jobs> at a time; each change was first confirmed against /repo itself (trymut.sh). Prints caught/MISSED.
J=$1; shift
export VROOT=${VERIF_ROOT:-/verif}   # a git worktree of /verif may be given, so that the harness can be edited while this runs
run_one() {
  d=$1; slot=$2
  id=$(basename $d); prop=${id%%-*}
  wt=/tmp/reg-$slot-$$
  git -C /repo worktree add --detach $wt HEAD >/dev/null 2>&1 || { echo "$id: worktree failed"; return; }
  if git -C $wt apply $d/patch.diff 2>/dev/null; then
    out=$(cd $VROOT && VERIF_REPO=$wt VERIF_EVIDENCE_DIR=/tmp/reg-evidence VERIF_REPLAY_DIR=/tmp/reg-replays ./check $prop 2>&1); rc=$?
    case $rc in 1) r=caught;; 0) r=MISSED;; *) r="rc=$rc";; esac
  else r="patch does not apply"; fi
  echo "$id: $r"
  git -C /repo worktree remove --force $wt >/dev/null 2>&1
}
export -f run_one
ls -d $(for p in "$@"; do echo $VROOT/seeded/$p-*; done) | awk '{print $0, NR}' | xargs -P $J -L 1 bash -c 'run_one $0 $1'
