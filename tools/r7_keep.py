#!/usr/bin/env python3
"""Round 7 bookkeeping: keeps the confirmed changes of /tmp/mut-<ID>-r7/1 as seeded/<ID>-19 (via keepmut.py) and prints the DESIGN table rows."""
import os, subprocess, sys
R = {
 ("C01", 1): ("a restart, a service whose recorded address must be cleared (its address-pool annotation names a pool that does not exist), the write of the cleared status failing once, then a new service", "caught by the quick tier as it stood (same code as C06-14, judged here by the exclusivity of the statuses)"),
 ("C03", 1): ("a converged service needing a write without an address change (pool renamed), that write failing once, another service processed before the retry", "caught by the quick tier as it stood"),
 ("C04", 1): ("two services sharing an address, one of them recording it in another spelling (upper-case or uncompressed IPv6, IPv4-mapped IPv4)", "initially MISSED: every status carried the canonical text; the election harnesses now record the addresses of every service but the first in another spelling of the same address, and every other service of the speaker simulator records IPv6 addresses in upper case"),
 ("C05", 1): ("a community literal or alias value with a leading zero in a field (65000:0042)", "caught by the quick tier as it stood (zero-padded literals of round 4)"),
 ("C06", 1): ("a restart, a service with a recorded address and an invalid address request (both spec.loadBalancerIP and the annotation), then a service without an address", "caught by the quick tier as it stood"),
 ("C08", 1): ("the same IPv4 block written as a CIDR in one pool and as a first-last range in another", "caught by the quick tier as it stood (same code as C02-13, judged here by config.For's verdict against the harness's own interval arithmetic)"),
 ("C11", 1): ("an IPv4 pool in range notation with avoidBuggyIPs and a .0 / .255 address inside the range", "caught by the quick tier as it stood"),
 ("C12", 1): (">=3 eligible nodes and an unlucky listing order (hashes cached in a slice that sort.Slice does not permute)", "caught by the quick tier as it stood"),
 ("C14", 1): ("a session holding advertisements, then a Set refused by validation (invalid advertisement not first in the list, or a local-preference conflict), then any regeneration", "caught by the quick tier as it stood (refused-Set histories)"),
 ("C15", 1): ("debug log level, a session with a plain-text password, >=2 reconcile passes over the same desired configuration", "caught by the quick tier as it stood"),
 ("C16", 1): ("marker, type NOTIFICATION, an announced length of 0..18 and more bytes on the stream (uint16 wrap of length-19)", "caught by the quick tier as it stood"),
 ("C17", 1): ("a requested IPv4 prefix whose IPNet.IP is held in the 16-byte form", "initially MISSED: every prefix of the C17 engines came from net.ParseCIDR (4-byte form); every other prefix of the alphabet is now handed over in the 16-byte form"),
 ("C18", 1): ("an L2Advertisement with >=2 interfaces and a repeated computation (set turned into a list in map order)", "caught by the quick tier as it stood"),
 ("C20", 1): ("two services sharing an address with different explicit interface lists and one tick of the announcement loop (the merge writes into a stored interface set under the read lock)", "initially MISSED by C20 (C13 catches the same code): the layer-2 burst engine had no two services on one address; two sharers with different interface lists added, the status readers iterate their interface sets, and what the announcer holds for them at the end must be what they were announced with"),
}
if len(sys.argv) > 1 and sys.argv[1] == "keep":
    os.environ["ROUND"] = "7"
    for (pid, k), (needs, note) in sorted(R.items()):
        subprocess.check_call(["/verif/tools/keepmut.py", pid, str(k), "yes", needs, note], env=os.environ)
else:
    for (pid, k), (needs, note) in sorted(R.items()):
        print("| %s-%d | %s | yes | %s |" % (pid, k + 18, needs, note))
