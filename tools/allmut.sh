#!/bin/bash
# usage: allmut.sh <ID>...  -- applies every kept change of the property to /repo in turn, runs the quick check, reverts; prints caught/missed
for ID in "$@"; do
  for d in /verif/seeded/$ID-*; do
    out=$(/verif/tools/trymut.sh $ID $d/patch.diff 2>&1); rc=$(echo "$out" | grep -o 'trymut: .* -> exit [0-9]*' | grep -o '[0-9]*$')
    case $rc in 1) r=caught;; 0) r=MISSED;; *) r="rc=$rc";; esac
    echo "$(basename $d): $r"
  done
done
find /verif/replays -newer /verif/engines.py -name '*.json' -delete 2>/dev/null
