#!/usr/bin/env python3
"""Round 6 bookkeeping: keeps the confirmed changes of /tmp/mut-<ID>-r6/1 as seeded/<ID>-16 (via keepmut.py) and prints the DESIGN table rows."""
import os, subprocess, sys
R = {
 ("C01", 1): ("two services sharing an address, a pool change that keeps the address under another pool name, then the service re-homed last drops its sharing key before the full re-sync", "caught by the quick tier as it stood"),
 ("C02", 1): ("a service keeps its address while the owner of that address changes (pool removed and re-created under another name, range moved between two pools, two pools swapping ranges)", "caught by the quick tier as it stood"),
 ("C03", 1): ("two services sharing an address and a configuration change that moves the address under another pool name; the next re-sync splits them", "caught by the quick tier as it stood"),
 ("C04", 1): ("a pool in use removed, the configuration reaching the speaker before the release and also changing the L2 node selector of another pool, no later configuration change", "caught by the quick tier as it stood"),
 ("C05", 1): ("a peer with a node selector, the node's labels stop matching and match again with the same routes for that peer", "caught by the quick tier as it stood"),
 ("C06", 1): ("a service pinned by the address-pool annotation, its pool renamed and the annotation following the rename while the controller is down, listed before a service with a lower recorded address", "initially MISSED: the loss was filed under the listed restart-ordering finding (the thief had a recorded address); a holder that, when the configured controller handled it, gave up a record of its own that nobody held and that was admissible for it then, had no reason to allocate - such thefts (and the holder's own loss) now carry signatures of their own; the configuration-changes-while-down scenario also lets pinned services follow a rename"),
 ("C07", 1): ("a pool removed while services hold its addresses, the holder deleted or moved meanwhile, the same range configured again, a newcomer for which the rest of the pool is used up", "caught by the quick tier as it stood"),
 ("C09", 1): ("a peer with a node selector whose labels stop matching and match again, >=1 service advertised to it with the same set at re-open", "caught by the quick tier as it stood"),
 ("C11", 1): ("two services sharing an address, a configuration change that moves the address to a pool with another name, the old pool name still existing or re-created", "caught by the quick tier as it stood"),
 ("C12", 1): ("--ignore-exclude-lb, the exclude label on the elected node, its network condition flipping, no other event", "caught by the quick tier as it stood"),
 ("C13", 1): ("two services sharing an address with different explicit interface lists, one announcement round, one of them withdrawn, a request on an interface only the withdrawn one covered", "caught by the quick tier as it stood (the engine added in round 5)"),
 ("C14", 1): ("a session whose list repeats a prefix with different communities, then a Set of the same length changing only a non-last entry of that prefix", "caught by the quick tier as it stood"),
 ("C15", 1): ("one prefix requested by >=2 advertisements with different communities, the one that arrives or goes away not being the last for that prefix", "caught by the quick tier as it stood"),
 ("C16", 1): ("eBGP, connection 1 to a 4-byte-capable peer, a connection loss, connection 2 to a peer without the capability", "caught by the quick tier as it stood"),
 ("C17", 1): ("X delivered, then Set(Y) and Set(X) both landing before the sender consumes the first (connection down), or Set(Y), Set(empty) before the first connection", "caught by the quick tier as it stood"),
 ("C18", 1): ("3 (or 5-7) pools pinned to one namespace, a service-selector pool sorting before the last of them, a first automatic allocation in that namespace, then any pool event", "caught by the quick tier as it stood"),
}
if len(sys.argv) > 1 and sys.argv[1] == "keep":
    os.environ["ROUND"] = "6"
    for (pid, k), (needs, note) in sorted(R.items()):
        subprocess.check_call(["/verif/tools/keepmut.py", pid, str(k), "yes", needs, note], env=os.environ)
else:
    for (pid, k), (needs, note) in sorted(R.items()):
        print("| %s-%d | %s | yes | %s |" % (pid, k + 15, needs, note))
