#!/usr/bin/env python3
import json, sys, glob
for pat in sys.argv[1:]:
    for f in sorted(glob.glob(pat)):
        d = json.load(open(f))
        print("==", f, d.get('engine'), d['kind'], "| sig:", d.get('sig'))
        print(d['detail'][:1500])
        print(json.dumps(d['case'])[:2500])
