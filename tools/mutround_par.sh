#!/bin/bash
# usage: ROUND=<r> mutround_par.sh <ID> [k...]  -- triage of a round in the sub-agent's own scratch worktree /tmp/wt-<ID>-r<r>:
# confirms each change (demo fails with / passes without, package tests pass), then applies it THERE and runs the quick check
# with VERIF_REPO pointing at the worktree. Kept changes are run against /repo itself afterwards (trymut.sh).
ID=$1; shift; KS=${*:-1 2}; SFX=${ROUND:+-r$ROUND}; WT=/tmp/wt-$ID$SFX
for K in $KS; do
  M=/tmp/mut-$ID$SFX/$K
  [ -f $M/demo.env ] || { echo "$ID/$K: no demo.env"; continue; }
  PKG=$(grep '^PKG=' $M/demo.env | cut -d= -f2-); RUN=$(grep '^RUN=' $M/demo.env | cut -d= -f2-); R=$(grep '^RACE=' $M/demo.env | cut -d= -f2-)
  PKG=${PKG#./}; PKG=${PKG%/}
  EX=.
  case $PKG in internal/bgp/frr) EX=TestNothing;; internal/k8s/controllers) EX='Test[^M]';; esac
  RACE=$([ "$R" = 1 ] && echo -race) $(dirname $0)/confirm_mut.sh $ID $K $PKG "$RUN" "$EX" > /tmp/confirm-$ID-$K.line
  cat /tmp/confirm-$ID-$K.line
  grep -q 'exit=[1-9][0-9]* (want !=0), existing tests with patch exit=0 (want 0), demo without patch exit=0' /tmp/confirm-$ID-$K.line || { echo "$ID/$K: NOT CONFIRMED"; continue; }
  git -C $WT apply $M/patch.diff || { echo "$ID/$K: apply failed"; continue; }
  out=$(cd /verif && VERIF_REPO=$WT VERIF_EVIDENCE_DIR=/tmp/r5-evidence VERIF_REPLAY_DIR=/tmp/r5-replays/$ID-$K ./check $ID 2>&1); rc=$?
  git -C $WT checkout -q -- .
  echo "$out" | grep -E "VIOLATION|KNOWN|INCONCLUSIVE" | cut -c1-260 | sed "s|^|$ID/$K:   |"
  case $rc in 1) echo "$ID/$K: caught";; 0) echo "$ID/$K: MISSED";; *) echo "$ID/$K: rc=$rc";; esac
done
