#!/usr/bin/env python3
"""keepmut.py <ID> <k> <caught:yes|no|partly> <needs text> -- copies /tmp/mut-<ID>/<k> to /verif/seeded/<ID>-<k>/ with meta.json"""
import json, os, shutil, sys, glob
pid, k, caught, needs = sys.argv[1:5]
extra = sys.argv[5] if len(sys.argv) > 5 else ""
rnd = os.environ.get("ROUND", "")
src = "/tmp/mut-%s%s/%s" % (pid, rnd and "-r"+rnd, k)
k2 = str(int(k) + 3*(int(rnd)-1)) if rnd else k
dst = "/verif/seeded/%s-%s" % (pid, k2)
os.makedirs(dst, exist_ok=True)
shutil.copy(os.path.join(src, "patch.diff"), dst)
for f in glob.glob(os.path.join(src, "*_test.go")) + glob.glob(os.path.join(src, "*.go")) + glob.glob(os.path.join(src, "README.md")):
    # keep demos under a name the go tool ignores inside /verif
    name = os.path.basename(f)
    shutil.copy(f, os.path.join(dst, name + (".txt" if name.endswith(".go") else "")))
conf = {}
for w in ("with", "existing", "without"):
    p = "/tmp/confirm-%s-%s-%s.txt" % (pid, k, w)
    if os.path.exists(p):
        conf[w] = open(p, errors="replace").read()[-600:]
meta = {"property": pid, "source": "independent sub-agent given only the property text and a scratch worktree",
        "needs_to_manifest": needs, "caught_by_check": caught, "notes": extra,
        "what_i_ran": ["tools/confirm_mut.sh %s %s <pkg> <demo>  (scratch worktree: demo fails with patch, passes without; existing package tests pass with patch)" % (pid, k),
                       "tools/trymut.sh %s seeded/%s-%s/patch.diff  (git -C /repo apply; ./check %s; git -C /repo checkout -- .)" % (pid, pid, k2, pid)],
        "confirmation_output_tail": conf}
json.dump(meta, open(os.path.join(dst, "meta.json"), "w"), indent=1)
print("kept", dst)
