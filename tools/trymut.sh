#!/bin/bash
# usage: trymut.sh <property-id> <patch.diff> [tier]   -- applies the patch to /repo, runs the check, reverts
set -u
ID=$1; PATCH=$2; TIER=${3:-quick}
cd /repo || exit 3
if [ -n "$(git status --porcelain --untracked-files=no)" ]; then echo "/repo not clean"; exit 3; fi
git apply "$PATCH" || { echo "patch does not apply"; exit 3; }
# evidence and replays of a run against a changed tree never land in /verif/evidence or /verif/replays
cd /verif && VERIF_EVIDENCE_DIR=/tmp/trymut-evidence VERIF_REPLAY_DIR=/tmp/trymut-replays ./check "$ID" --tier "$TIER"; rc=$?
git -C /repo checkout -- . 
echo "trymut: $ID $(basename $(dirname $PATCH)) -> exit $rc"
exit $rc
