#!/bin/bash
# usage: confirm_mut.sh <ID> <k> <pkgdir> <demo run regexp> [existing-tests run regexp]
# Confirms in the scratch worktree /tmp/wt-<ID>: demo fails with the patch and passes without; package tests pass with the patch.
ID=$1; K=$2; PKG=$3; RUN=$4; EX=${5:-.}
SFX=${ROUND:+-r$ROUND}; WT=/tmp/wt-$ID$SFX; M=/tmp/mut-$ID$SFX/$K
export GOFLAGS=-mod=mod GOPROXY=off
cd $WT || exit 3
git checkout -q -- . ; git clean -fdq
git apply $M/patch.diff || { echo "APPLY FAILED"; exit 3; }
DEMO=$(ls $M/*_test.go | head -1)
cp $DEMO $PKG/zzdemo${K}_test.go
go test $RACE -vet=off -count=1 -run "$RUN" ./$PKG/ > /tmp/confirm-$ID-$K-with.txt 2>&1; with=$?
rm -f $PKG/zzdemo${K}_test.go
go test -vet=off -count=1 -run "$EX" ./$PKG/ > /tmp/confirm-$ID-$K-existing.txt 2>&1; ex=$?
git checkout -q -- .
cp $DEMO $PKG/zzdemo${K}_test.go
go test $RACE -vet=off -count=1 -run "$RUN" ./$PKG/ > /tmp/confirm-$ID-$K-without.txt 2>&1; without=$?
rm -f $PKG/zzdemo${K}_test.go
git checkout -q -- . ; git clean -fdq
echo "confirm $ID/$K: demo with patch exit=$with (want !=0), existing tests with patch exit=$ex (want 0), demo without patch exit=$without (want 0)"
