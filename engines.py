"""Per-property engine table used by ./check (see DESIGN.md).

engine keys: name, pkg (package dir relative to the repo root), run (regexp of
test names), checks {tier: total rapid cases}, shards {tier: processes},
race, go ("default" | "go1.26.8"), timeout {tier: seconds}, tiers, env.
kind == "fuzz": native go fuzzing (thorough only): fuzz (target), fuzztime.
"""

Q, T = "quick", "thorough"

PROPS = {
    "C20": {"engines": [
        {"name": "controller-concurrent", "pkg": "controller", "run": "^TestVerifC20Controller$", "race": True,
         "checks": {Q: 400, T: 32000}, "shards": {Q: 4, T: 16}, "timeout": {Q: 900, T: 5400}},
        {"name": "layer2-burst", "pkg": "internal/layer2", "run": "^TestVerifC20Layer2Burst$", "shrinktime": "20s",
         "checks": {Q: 8, T: 160}, "shards": {Q: 4, T: 16}, "timeout": {Q: 600, T: 1800}},
        {"name": "speaker-concurrent", "pkg": "speaker", "run": "^TestVerifC20Speaker$", "race": True,
         "checks": {Q: 400, T: 32000}, "shards": {Q: 4, T: 16}, "timeout": {Q: 900, T: 5400}},
    ]},
    "C17": {"engines": [
        {"name": "loopback-session", "pkg": "internal/bgp/native", "run": "^TestVerifC17Session$", "race": True, "shrinktime": "20s",
         "checks": {Q: 600, T: 48000}, "shards": {Q: 4, T: 16}, "timeout": {Q: 900, T: 5400}},
        {"name": "virtual-session", "pkg": "internal/bgp/native", "run": "^TestVerifC17Virtual$", "go": "go1.26.8",
         "checks": {Q: 40000, T: 8000000}, "shards": {Q: 4, T: 16}},
    ]},
    "C19": {"engines": [
        {"name": "frr-debouncer", "pkg": "internal/bgp/frr", "run": "^TestVerifC19Debounce$", "go": "go1.26.8",
         "checks": {Q: 10000, T: 1600000}, "shards": {Q: 2, T: 16}},
        {"name": "frr-reload", "pkg": "internal/bgp/frr", "run": "^TestVerifC19Reload$", "go": "go1.26.8",
         "checks": {Q: 3000, T: 320000}, "shards": {Q: 2, T: 16}},
        {"name": "frr-manager", "pkg": "internal/bgp/frr", "run": "^TestVerifC19Manager$", "go": "go1.26.8",
         "checks": {Q: 4000, T: 400000}, "shards": {Q: 2, T: 16}},
        {"name": "frrk8s-debouncer", "pkg": "internal/k8s/controllers", "run": "^TestVerifC19FRRK8s$", "go": "go1.26.8",
         "checks": {Q: 6000, T: 800000}, "shards": {Q: 2, T: 16}},
    ]},
    "C15": {"engines": [
        {"name": "frrk8s-witness", "pkg": "internal/bgp/frrk8s", "run": "^TestVerifC15Witness$", "rapid": False,
         "checks": {Q: 1, T: 1}, "shards": {Q: 1, T: 1}},
        {"name": "frrk8s-reconciler", "pkg": "internal/k8s/controllers", "run": "^TestVerifC15Reconciler$",
         "checks": {Q: 1500, T: 160000}, "shards": {Q: 2, T: 16}},
        {"name": "password", "pkg": "speaker", "run": "^TestVerifC15Password$",
         "checks": {Q: 2000, T: 20000}, "shards": {Q: 1, T: 2}},
        {"name": "frrk8s-config", "pkg": "internal/bgp/frrk8s", "run": "^TestVerifC15Config$",
         "checks": {Q: 3000, T: 320000}, "shards": {Q: 2, T: 16}},
    ]},
    "C14": {"engines": [
        {"name": "frr-config", "pkg": "internal/bgp/frr", "run": "^TestVerifC14Config$",
         "checks": {Q: 3000, T: 320000}, "shards": {Q: 2, T: 16}},
    ]},
    "C13": {"engines": [
        {"name": "histories", "pkg": "internal/layer2", "run": "^TestVerifC13Histories$",
         "checks": {Q: 10000, T: 1600000}, "shards": {Q: 2, T: 16}},
        {"name": "concurrent", "pkg": "internal/layer2", "run": "^TestVerifC13Concurrent$", "race": True,
         "checks": {Q: 200, T: 8000}, "shards": {Q: 2, T: 8}},
        {"name": "withdraw-inside-announcement", "pkg": "internal/layer2", "run": "^TestVerifC13WithdrawInside$",
         "checks": {Q: 4000, T: 400000}, "shards": {Q: 2, T: 16}},
        {"name": "speaker", "pkg": "speaker", "run": "^TestVerifC13Spk$",
         "checks": {Q: 6000, T: 800000}, "shards": {Q: 4, T: 16}},
    ]},
    "C05": {"engines": [
        {"name": "speaker", "pkg": "speaker", "run": "^TestVerifC05Spk$",
         "checks": {Q: 6000, T: 800000}, "shards": {Q: 4, T: 16}},
    ]},
    "C09": {"engines": [
        {"name": "speaker-witness", "pkg": "speaker", "run": "^TestVerifSpkWitness$", "rapid": False,
         "checks": {Q: 1, T: 1}, "shards": {Q: 1, T: 1}},
        {"name": "speaker", "pkg": "speaker", "run": "^TestVerifC09Spk$",
         "checks": {Q: 6000, T: 800000}, "shards": {Q: 4, T: 16}},
    ]},
    "C04": {"engines": [
        {"name": "views", "pkg": "speaker", "run": "^TestVerifC04Views$",
         "checks": {Q: 30000, T: 3200000}, "shards": {Q: 2, T: 16}},
        {"name": "exhaustive-views", "pkg": "speaker", "run": "^TestVerifC04Exhaustive$", "rapid": False,
         "checks": {Q: 1, T: 1}, "shards": {Q: 4, T: 16}},
        {"name": "speaker", "pkg": "speaker", "run": "^TestVerifC04Spk$",
         "checks": {Q: 6000, T: 800000}, "shards": {Q: 4, T: 16}},
    ]},
    "C10": {"engines": [
        {"name": "views", "pkg": "speaker", "run": "^TestVerifC10Views$",
         "checks": {Q: 40000, T: 3200000}, "shards": {Q: 2, T: 16}},
        {"name": "speaker", "pkg": "speaker", "run": "^TestVerifC10Spk$",
         "checks": {Q: 6000, T: 800000}, "shards": {Q: 4, T: 16}},
        {"name": "exhaustive-views", "pkg": "speaker", "run": "^TestVerifC10Exhaustive$", "rapid": False,
         "checks": {Q: 1, T: 1}, "shards": {Q: 4, T: 16}},
    ]},
    "C12": {"engines": [
        {"name": "perturb", "pkg": "speaker", "run": "^TestVerifC12Perturb$",
         "checks": {Q: 20000, T: 1600000}, "shards": {Q: 2, T: 16}},
        {"name": "exhaustive-subsets", "pkg": "speaker", "run": "^TestVerifC12Exhaustive$", "rapid": False,
         "checks": {Q: 1, T: 1}, "shards": {Q: 1, T: 1}},
        {"name": "speaker", "pkg": "speaker", "run": "^TestVerifC12Spk$",
         "checks": {Q: 6000, T: 800000}, "shards": {Q: 4, T: 16}},
    ]},
    "C07": {"engines": [
        {"name": "controller", "pkg": "controller", "run": "^TestVerifC07Ctrl$",
         "checks": {Q: 12000, T: 1600000}, "shards": {Q: 4, T: 16}},
    ]},
    "C06": {"engines": [
        {"name": "controller-witness", "pkg": "controller", "run": "^TestVerifCtrlWitness$", "rapid": False, "env": {"VERIF_WITNESS_PROP": "C06"},
         "checks": {Q: 1, T: 1}, "shards": {Q: 1, T: 1}},
        {"name": "controller", "pkg": "controller", "run": "^TestVerifC06Ctrl$",
         "checks": {Q: 12000, T: 1600000}, "shards": {Q: 4, T: 16}},
    ]},
    "C03": {"engines": [
        {"name": "controller", "pkg": "controller", "run": "^TestVerifC03Ctrl$",
         "checks": {Q: 12000, T: 1600000}, "shards": {Q: 4, T: 16}},
    ]},
    "C01": {"engines": [
        {"name": "controller", "pkg": "controller", "run": "^TestVerifC01Ctrl$",
         "checks": {Q: 12000, T: 1600000}, "shards": {Q: 4, T: 16}},
        {"name": "alloc-api", "pkg": "internal/allocator", "run": "^TestVerifC01Alloc$",
         "checks": {Q: 12000, T: 1600000}, "shards": {Q: 4, T: 16}},
    ]},
    "C02": {"engines": [
        {"name": "controller-witness", "pkg": "controller", "run": "^TestVerifCtrlWitness$", "rapid": False, "env": {"VERIF_WITNESS_PROP": "C02"},
         "checks": {Q: 1, T: 1}, "shards": {Q: 1, T: 1}},
        {"name": "controller", "pkg": "controller", "run": "^TestVerifC02Ctrl$",
         "checks": {Q: 12000, T: 1600000}, "shards": {Q: 4, T: 16}},
        {"name": "alloc-api", "pkg": "internal/allocator", "run": "^TestVerifC02Alloc$",
         "checks": {Q: 12000, T: 1600000}, "shards": {Q: 4, T: 16}},
        {"name": "alloc-api-witness", "pkg": "internal/allocator", "run": "^TestVerifC02AllocWitness$", "rapid": False,
         "checks": {Q: 1, T: 1}, "shards": {Q: 1, T: 1}},
    ]},
    "C11": {"engines": [
        {"name": "controller", "pkg": "controller", "run": "^TestVerifC11Ctrl$",
         "checks": {Q: 12000, T: 1600000}, "shards": {Q: 4, T: 16}},
        {"name": "alloc-api", "pkg": "internal/allocator", "run": "^TestVerifC11Alloc$",
         "checks": {Q: 12000, T: 1600000}, "shards": {Q: 4, T: 16}},
    ]},
    "C08": {"engines": [
        {"name": "config", "pkg": "internal/config", "run": "^TestVerifC08Config$",
         "checks": {Q: 80000, T: 16000000}, "shards": {Q: 2, T: 16}},
        {"name": "parsecidr-fuzz", "kind": "fuzz", "pkg": "internal/config", "fuzz": "FuzzVerifC08ParseCIDR",
         "fuzztime": {T: 90}, "tiers": [T]},
    ]},
    "C18": {"engines": [
        {"name": "toconfig", "pkg": "internal/k8s/controllers", "run": "^TestVerifC18ToConfig$",
         "checks": {Q: 6000, T: 480000}, "shards": {Q: 2, T: 16}},
        {"name": "reconcilers", "pkg": "internal/k8s/controllers", "run": "^TestVerifC18Reconcilers$",
         "checks": {Q: 6000, T: 480000}, "shards": {Q: 2, T: 16}},
        {"name": "controller", "pkg": "controller", "run": "^TestVerifC18Ctrl$",
         "checks": {Q: 6000, T: 480000}, "shards": {Q: 2, T: 16}},
        {"name": "speaker", "pkg": "speaker", "run": "^TestVerifC18Spk$",
         "checks": {Q: 4000, T: 400000}, "shards": {Q: 2, T: 16}},
    ]},
    "C16": {"engines": [
        {"name": "update", "pkg": "internal/bgp/native", "run": "^TestVerifC16Update$",
         "checks": {Q: 40000, T: 32000000}, "shards": {Q: 2, T: 16}},
        {"name": "open", "pkg": "internal/bgp/native", "run": "^TestVerifC16Open$",
         "checks": {Q: 10000, T: 8000000}, "shards": {Q: 1, T: 16}},
        {"name": "readopen", "pkg": "internal/bgp/native", "run": "^TestVerifC16ReadOpen$",
         "checks": {Q: 40000, T: 32000000}, "shards": {Q: 2, T: 16}},
        {"name": "session-stream", "pkg": "internal/bgp/native", "run": "^TestVerifC16Session$", "shrinktime": "20s",
         "checks": {Q: 200, T: 16000}, "shards": {Q: 4, T: 16}, "timeout": {Q: 900, T: 5400}},
        {"name": "readopen-fuzz", "kind": "fuzz", "pkg": "internal/bgp/native", "fuzz": "FuzzVerifC16ReadOpen",
         "fuzztime": {T: 90}, "tiers": [T]},
    ]},
}
