"""Texts of MANIFEST.json per property."""

TEXT = {
    "C16": {
        "level": "Exploration: tens of thousands (quick) to millions (thorough) of generated messages per run are encoded by the real sendOpen/sendUpdate/sendWithdraw/sendKeepalive and read back by an independent RFC 4271 decoder; generated and mutated OPEN byte strings are fed to the real readOpen through a counting reader; the thorough tier adds a coverage-guided native fuzz campaign with the same oracle. It samples the input space, it does not exhaust it.",
        "design_ref": "DESIGN.md section 17",
        "note": "Trusted: the harness's own RFC 4271 decoder; next hop is the 4-byte IPv4 address connect() obtains; trailing host bits of an NLRI are irrelevant.",
        "technique": "property-based testing: round trip through an independent decoder + mutation fuzzing of readOpen (rapid, go native fuzz)",
    },
}

NOT_APPLICABLE = {
    "C01": "check not built yet (work in progress; see DESIGN.md for the planned generated-input check)",
    "C02": "check not built yet (work in progress; see DESIGN.md for the planned generated-input check)",
    "C03": "check not built yet (work in progress; see DESIGN.md for the planned generated-input check)",
    "C04": "check not built yet (work in progress; see DESIGN.md for the planned generated-input check)",
    "C05": "check not built yet (work in progress; see DESIGN.md for the planned generated-input check)",
    "C06": "check not built yet (work in progress; see DESIGN.md for the planned generated-input check)",
    "C07": "check not built yet (work in progress; see DESIGN.md for the planned generated-input check)",
    "C08": "check not built yet (work in progress; see DESIGN.md for the planned generated-input check)",
    "C09": "check not built yet (work in progress; see DESIGN.md for the planned generated-input check)",
    "C10": "check not built yet (work in progress; see DESIGN.md for the planned generated-input check)",
    "C11": "check not built yet (work in progress; see DESIGN.md for the planned generated-input check)",
    "C12": "check not built yet (work in progress; see DESIGN.md for the planned generated-input check)",
    "C13": "check not built yet (work in progress; see DESIGN.md for the planned generated-input check)",
    "C14": "check not built yet (work in progress; see DESIGN.md for the planned generated-input check)",
    "C15": "check not built yet (work in progress; see DESIGN.md for the planned generated-input check)",
    "C16": "check not built yet (work in progress; see DESIGN.md for the planned generated-input check)",
    "C17": "check not built yet (work in progress; see DESIGN.md for the planned generated-input check)",
    "C18": "check not built yet (work in progress; see DESIGN.md for the planned generated-input check)",
    "C19": "check not built yet (work in progress; see DESIGN.md for the planned generated-input check)",
    "C20": "check not built yet (work in progress; see DESIGN.md for the planned generated-input check)"
}
