"""Texts of MANIFEST.json per property."""

COMMON = "Trusted: the harness's mini API server and event loop reproduce what the reconcilers see (list order chosen by the case, work-queue coalescing, status update = status + annotations, followed by a service event); its reference oracles (pool arithmetic, admission, sharing rule) are written from the property text and the user documentation. Kubernetes admission invariants (>=1 port, families consistent with the policy, immutable primary family) are assumed."

TEXT = {
    "C20": {
        "level": "Exploration of schedules under the race detector: generated event batches are delivered concurrently, one goroutine per reconciler (service events plus the re-syncs other handlers request, pool / configuration events, node events; in a third of the controller cases two service workers, the events of one service staying on one of them), through the handlers the real k8s.New hands to the reconcilers (its manager is built without an API server and never started; the handlers are the Listener methods unless New is changed) to the real controller and speaker, while fetcher goroutines query pool counters, layer-2 status (reading the advertisements as the status reconciler does), per-service BGP peers and the ARP decision; any race report, panic or deadlock is a violation, and the final statuses / allocator memory / counters / announcements / routes must equal those of a serial replay of the same handlers in the order in which they took effect (logged inside the Listener's critical section). A further -race engine runs FRRK8sReconciler.UpdateConfig (handlers) against Reconcile (worker); node events go through the real NodeReconciler.",
        "design_ref": "DESIGN.md section 21",
        "note": "Interleavings are produced by the Go scheduler (yields generated), not enumerated; the race detector extends each run to executions with the same happens-before graph. Workloads are restricted to those whose result is a function of the handler order. A race report fails the shard, not a single case: its replay file re-runs the shard's seed.",
        "technique": "property-based generation of concurrent workloads + race detector + serial-replay differential (rapid, -race)",
    },
    "C17": {
        "level": "Exploration with injected faults, in real time: generated sequences of Set calls (incl. empty sets and attribute-only changes), peer-side connection drops (at once / after k more UPDATEs), an optional handshake with an unexpected ASN and short pauses are run against the real native session (NewSession, run, connect, dialMD5, consumeBGP, sendUpdates, Close) over loopback TCP under the race detector; a scripted in-process peer decodes the stream with the independent RFC 4271 decoder and its table for the current connection must equal the last requested set; after Close no connection attempt or message may follow. A second engine runs the real Set / sendUpdates / abort / Close / consumeBGP / sendKeepalives inside a testing/synctest bubble over net.Pipe: the peer reads byte by byte, so connection losses are placed at exact byte offsets (inside the handshake, an UPDATE, a withdraw, a KEEPALIVE), keepalive ticks and back-off run on the virtual clock, refused Set calls are interleaved, and at every point where all goroutines are idle, the connection is up and nothing is pending the peer table must equal the last requested set - without any timeout. Front half: engine speaker-requests (a changed route must be requested again with fresh objects); route sets with up to 63 communities; refused Set calls.",
        "design_ref": "DESIGN.md section 18",
        "note": "Trusted: the scripted peer and its decoder. Timing of changes relative to the sender loop is sampled by the OS scheduler, not enumerated; convergence is awaited for 3 s + 10 s grace (normal: < 5 ms), a verdict by timeout is labelled as such. The virtual-clock engine re-states the dialling half of connect() and the retry loop of run() (dialMD5 needs real sockets); the loopback engine covers the real ones.",
        "technique": "stateful property-based testing with fault injection against a scripted peer (rapid, -race; rapid + testing/synctest on a virtual clock)",
    },
    "C19": {
        "level": "Exploration on a virtual clock: the real debouncer of internal/bgp/frr/config.go and the frr-k8s variant run inside testing/synctest bubbles (go1.26.8); submissions (new, identical, re-apply, older) at inter-arrival times chosen around the debounce and retry intervals, finite failure patterns and a slow reload action are generated; the observed apply sequence (time, configuration, outcome) must equal that of an independent event-driven reference model, submitters must never block longer than the action (or, for the frr-k8s variant, than a consumer that is busy or starts late when a window expires), and the clauses of the statement are re-checked directly. Two further engines put the real reload action (template, file, scripted reloader signal) and the whole real FRR sessionManager (NewSession / Set / Close / SyncBFDProfiles / SyncExtraInfo) in front of the real debouncer; the last applied rendering must equal what a fresh manager renders for the final state. Front half: engine speaker-resubmission (a full re-sync of an unchanged state must hand every session the identical request and extra configuration) and the order-independence of the frr-k8s backend.",
        "design_ref": "DESIGN.md section 20",
        "note": "Trusted: go1.26.8's testing/synctest and the assumption that the code under test (time, channels, select) behaves under go1.26.8 as under go1.23.6; simultaneous expiry and submission may resolve either way.",
        "technique": "property-based testing on a virtual clock against a reference model (rapid + testing/synctest)",
    },
    "C13": {
        "level": "Exploration: (1) generated histories of announce / re-announce with another interface set / withdraw / ARP packets (request, reply or another ARP-family opcode x destination x target x interface) / replay of the unsolicited-announcement queue, against the real Announce and real arpResponders over an in-memory packet connection, judged by a reference model after every operation (reply iff announced and covered, reference counts, gratuitous frames); (2) concurrent runs under the race detector: requester goroutines against the real responder loop while an updater toggles and re-scopes a co-tenant; (3) a placed interleaving: while the real gratuitous() writes its k-th frame the holders of the address are withdrawn on another goroutine; once the withdrawal of the last holder has returned no further unsolicited frame may be written; (4) generated speaker histories: what the real announcer holds (i.e. answers for) must equal what freshly started speakers hold for the final state. The speaker engine also judges the interface scope of every announcement against a closed form (all interfaces, or the union of the interface lists of the L2 advertisements selecting this node).",
        "design_ref": "DESIGN.md section 14",
        "note": "Trusted: the in-memory PacketConn and the ethernet/arp library's decoder. NOT reached: the NDP packet path (ndp.Conn needs a raw ICMPv6 socket); it shares shouldAnnounce and the reference counting, which are covered. Interleavings of the concurrent engine are sampled by the Go scheduler.",
        "technique": "stateful property-based testing against a reference model + race-detector runs of generated concurrent workloads (rapid, -race)",
    },
    "C14": {
        "level": "Exploration: generated session sets and advertisement sets go through the real sessionManager (NewSession/Set/Close), createConfig and templateConfig; the produced text is parsed and evaluated by the harness's interpreter of FRR's network / route-map / prefix-list semantics: per neighbor the offered prefixes with local preference and communities must equal the requested ones, inbound everything is rejected, routers originate the union, session parameters sit on the right neighbor, and the text is identical under creation order, advertisement order, earlier accepted Set calls, refused Set calls (which must change nothing) and close/re-create churn. Front half: engine speaker-requests (what the speaker requests on each session vs closed form and fresh speakers, no advertisement object changed after it was handed over) and the passwordForSession engine.",
        "design_ref": "DESIGN.md section 15",
        "note": "Trusted: the interpreter's reading of FRR semantics (documented in its header); unknown constructs make the run inconclusive (exit 2). Sessions satisfy what the configuration layer guarantees in FRR mode; disableMP is not combined with unnumbered peers.",
        "technique": "property-based testing: interpretation of the generated artefact vs the request (rapid)",
    },
    "C15": {
        "level": "Exploration: the same generated sessions through the real frr-k8s session manager; the captured FRRConfiguration is judged field by field against the frr-k8s API reading (allowed prefixes sorted/unique, community and local-preference associations exact, router prefixes = union, node selector = this node, session parameters, password xor secret) and differentially against the routes the FRR-mode text offers for the same sessions; passwordForSession is checked over all backend / secret-handling combinations. Front half: engine speaker-requests (what the speaker requests on each session, incl. Community CR aliases, zero-padded literals and advertisements that both name and select pools).",
        "design_ref": "DESIGN.md section 16",
        "note": "Trusted: the C14 interpreter (for the differential) and the API reading. One genuine defect (source address dropped) is a known finding, excluded by signature.",
        "technique": "property-based testing: API-level interpretation + differential against the other backend (rapid)",
    },
    "C05": {
        "level": "Exploration: generated speaker histories (services, addresses, endpoint slices, node labels/conditions, configuration with peers/advertisements/aggregation/communities/peer lists, membership) through the real reconcilers, Listener, speaker controller and BGP controller over a recording session manager; at every quiescence the last Set on every live session and PeersForService are compared, as sets, with a closed form computed from the CRs. Further engines: the fresh-speaker differential (a configuration change the speaker never took up shows), the per-neighbor offered routes through the real FRR and frr-k8s backends, session parameters (router id, ASNs, address, password) of every live session, and the concurrent speaker workloads of C20.",
        "design_ref": "DESIGN.md section 6",
        "note": "Trusted: the closed form (incl. the C10 eligibility iff) and the mini API server / event loop; statuses are controller-consistent; the speaker under test is node0.",
        "technique": "stateful property-based testing against a closed-form per-peer route set (rapid)",
    },
    "C09": {
        "level": "Exploration: the same speaker histories; at every quiescence two freshly constructed speakers (nodes-then-config, config-then-nodes) are fed the final store and must hold exactly the same layer-2 announcements (service, address, interface scope), per-session route sets and per-service peers as the instance that lived through the history. Events reach the reconcilers through their real update filters; EndpointSlice lists may fail transiently; a quarter of the cases run with a load-balancer class.",
        "design_ref": "DESIGN.md section 10",
        "note": "Trusted: the overlay-only goroutine-free announcer constructor; the final store holds a configuration the speaker accepts and controller-consistent statuses. One genuine defect is a known finding (first-seen node with memberlist disabled), excluded by signature.",
        "technique": "stateful property-based testing: differential against fresh instances (rapid)",
    },
    "C04": {
        "level": "Exploration: for each generated cluster view one real layer2Controller per node evaluates ShouldAnnounce over the same nodes map, speaker list, configuration (built by config.For from generated CRs) and endpoint slices; the number of announcing nodes must be exactly 1 when the closed-form eligibility predicate of the statement is non-empty and 0 otherwise, the announcer must be eligible, and a second service on the same address must elect the same node; a bounded space of 2 654 208 three-node views is enumerated completely in the thorough tier (every 64th view in the quick tier).",
        "design_ref": "DESIGN.md section 5",
        "note": "Trusted: the closed-form eligibility predicate written from the statement; all speakers share one view.",
        "technique": "property-based testing: closed-form oracle + uniqueness relation over all nodes' decisions (rapid) + bounded exhaustive enumeration",
    },
    "C10": {
        "level": "Exploration: generated endpoint-slice layouts (repeated addresses with conflicting conditions, nil/true/false ready and serving, missing node names), node conditions/labels, advertisement node selection and both traffic policies; the real bgpController.ShouldAnnounce must equal the closed-form iff of the statement on the domain where an endpoint address lives on one node, and satisfy the two reading-independent implications on the unrestricted domain; a stateful engine drives the real speaker over generated histories; a bounded space of 21 882 096 views (node state x selection x policy x three slice entries with all nine ready/serving combinations over two addresses) is enumerated completely in the thorough tier and sampled every 2048th view in the quick tier.",
        "design_ref": "DESIGN.md section 11",
        "note": "Trusted: the closed form; main domain restricts each endpoint address to one node (a pod IP is on one node).",
        "technique": "property-based testing against a closed-form iff (rapid) + bounded exhaustive enumeration",
    },
    "C12": {
        "level": "Exploration plus a complete bounded enumeration: metamorphic relations between the layer-2 announcer of a view and of a perturbed view (nodes made ineligible by speaker loss / NetworkUnavailable / exclude label, nodes added, every list permuted): the announcer is unchanged unless it was removed or a new node wins, and no address moves between two nodes eligible before and after; all 32 subsets of a 5-node eligible set x 64 address/name combinations are enumerated on every run.",
        "design_ref": "DESIGN.md section 13",
        "note": "Trusted: the eligibility closed form of C04; relations are those of rendezvous hashing stated in the property.",
        "technique": "property-based testing: metamorphic relations + bounded exhaustive enumeration (rapid)",
    },
    "C01": {
        "level": "Exploration: two engines. (a) generated histories of allocator API calls (Assign/Allocate/AllocateFromPool/additional family/Unassign/SetPools) with arguments derived from generated Services as the controller derives them; (b) generated histories of service/pool/re-sync events driven through the real ServiceReconciler, PoolReconciler, Listener, controller and allocator over an in-memory API server with a harness-owned schedule. Exclusivity is checked pairwise on Allocator.IPs after every call / handler invocation and on the Service statuses at every quiescence. Further engines: the controller histories with finite sequences of failing status writes and reads, and the concurrent workloads of C20 (race detector, exclusivity at rest, serial replay). The simulator delivers events through the reconcilers' real update filters.",
        "design_ref": "DESIGN.md section 2", "note": COMMON,
        "technique": "stateful property-based testing against a reference model (rapid): pairwise sharing-rule invariant after every step",
    },
    "C02": {
        "level": "Exploration: the same two engines as C01; every newly recorded address set is judged against a specification computed from the generated CRs (one owning pool, buggy addresses, namespace/service-selector admission, families, auto-assign, pinned-before-unpinned, priority, explicit IP / pool requests, pool annotation written with the status); error <=> nothing recorded at the API level.",
        "design_ref": "DESIGN.md section 3", "note": COMMON + " Two genuine defects are recorded as known findings (known_findings.json) and excluded by signature.",
        "technique": "stateful property-based testing against a closed-form specification computed from the CRs (rapid)",
    },
    "C03": {
        "level": "Exploration: controller histories with innocent bystanders; at every quiescence each service whose spec was not written since the previous quiescence and whose previous addresses are still admissible (independent predicate over CRs, own spec and co-tenants) must hold the same set (or gain the missing family under PreferDualStack); two forced re-syncs at quiescence must write at most once per service, then not at all. Also the concurrent workloads of C20 (a pool rename delivered while a service is processed must not cost it its address).",
        "design_ref": "DESIGN.md section 4", "note": COMMON,
        "technique": "stateful property-based testing: frame condition between quiescent states + write counting (rapid)",
    },
    "C06": {
        "level": "Exploration with injected faults: controller histories plus crash points (between events, inside a handler just before / just after the status write), finite sequences of failing status writes, and restarts with a generated service list order, early events and pool-reconcile position; after every restart the recorded-and-admissible addresses must survive, and at every quiescence the allocator memory and counters must equal the statuses for every service that ever existed.",
        "design_ref": "DESIGN.md section 7", "note": COMMON + " One genuine design-level defect (restart ordering) is a known finding, excluded by signature.",
        "technique": "stateful property-based testing with fault injection (crash points, failing writes, delivery orders) against a recorded-status model (rapid)",
    },
    "C07": {
        "level": "Exploration: controller histories to quiescence; for every LoadBalancer service left without address an independent search over the CRs and the recorded statuses (explicit IPs, requested pool, pinned then unpinned auto-assign pools, family policy, free-or-shareable addresses of the tiny pools, enumerated exactly) decides whether an admissible assignment exists. The histories contain finite sequences of failing status writes and reads, API-server status resets on type changes and ipMode defaulting.",
        "design_ref": "DESIGN.md section 8", "note": COMMON + " 'Shareable' is read strictly (both Cluster, or both Local with identical selectors) so that the oracle never demands a sharing the implementation may legitimately refuse.",
        "technique": "stateful property-based testing against an independent admissibility search (rapid)",
    },
    "C11": {
        "level": "Exploration: (a) allocator API histories: after every call the internal bookkeeping maps must be exactly what the surviving assignments of the reference model imply, CountersForPool must equal exact big-integer counts of usable/used addresses (saturating), and every address released by the call must be assignable at once to a probe service; (b) controller histories: at every quiescence memory and counters equal the statuses. The controller histories contain failing status writes and reads, and the starvation search of C07 runs at every quiescence as well (a given-up address must be available to others). Also the concurrent workloads of C20 (pools shrunk / removed / re-homed while services come and go).",
        "design_ref": "DESIGN.md section 12", "note": COMMON,
        "technique": "stateful property-based testing: model-derived bookkeeping differential + exact counting oracle + reuse probes (rapid)",
    },
    "C08": {
        "level": "Exploration: generated resource sets (pools in every address notation from a small colliding v4/v6 space, nodes with internal IPs, L2/BGP advertisements with names/selectors/aggregation lengths/localprefs/peer lists) are parsed by the real config.For; every accepted configuration is compared with the harness's own netip interval arithmetic and selector evaluation (exact address sets, pairwise disjointness, node IPs, advertisement attachment, aggregate containment, localpref collisions). A second engine runs speaker histories through the real ConfigReconciler (events filtered by its real update filters) and compares, at every quiescence, the configuration the speaker runs with against config.For of the current store.",
        "design_ref": "DESIGN.md section 9",
        "note": "Trusted: the harness's interval arithmetic; an IPv4-mapped spelling denotes the IPv4 address; only the notations of the generator grammar are judged. Rejections are not judged (the property speaks about accepted configurations).",
        "technique": "property-based testing: generated configurations vs an independent closed-form specification (rapid)",
    },
    "C18": {
        "level": "Exploration: generated cluster snapshots (valid and deliberately invalid, >=3 objects per kind, several pools pinned to one namespace) are converted by the real toConfig for the original order, 1..4 random permutations of every listed kind, and 1..3 repetitions (the first on the very same in-memory snapshot, the others on fresh copies); selectors include multi-valued match expressions; a second engine drives the real Config/Pool reconcilers twice over one store; two more put the real controller behind the real PoolReconciler and the real speaker behind the real ConfigReconciler and, at every quiescence of a generated history, reconcile the unchanged store once more - the configuration must not be delivered again (nothing a consumer does with the configuration it was given may make the next computation look different); results are compared with reflect.DeepEqual as the reconcilers do; acceptance must agree as well.",
        "design_ref": "DESIGN.md section 19",
        "note": "Trusted: reflect.DeepEqual is the reconcilers' notion of 'unchanged'.",
        "technique": "property-based testing: metamorphic relation under permutation and repetition (rapid)",
    },
    "C16": {
        "level": "Exploration: tens of thousands (quick) to millions (thorough) of generated messages per run are encoded by the real sendOpen/sendUpdate/sendWithdraw/sendKeepalive and read back by an independent RFC 4271 decoder; generated and mutated OPEN byte strings are fed to the real readOpen through a counting reader; the thorough tier adds a coverage-guided native fuzz campaign with the same oracle; an engine over whole sessions (real NewSession/connect/sendUpdates against a scripted loopback peer, with and without a configured source address) decodes every message of the stream and checks NEXT_HOP against the connection\'s local address. It samples the input space, it does not exhaust it. Front half: engine speaker-requests (the content and the session parameters the speaker hands to the encoder); the scripted loopback peer varies its capability layout and capability per connection and judges the AS_PATH width.",
        "design_ref": "DESIGN.md section 17",
        "note": "Trusted: the harness's own RFC 4271 decoder; next hop is the 4-byte IPv4 address connect() obtains; trailing host bits of an NLRI are irrelevant.",
        "technique": "property-based testing: round trip through an independent decoder + mutation fuzzing of readOpen (rapid, go native fuzz)",
    },
}

NOT_APPLICABLE = {}
