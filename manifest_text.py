"""Texts of MANIFEST.json per property."""

TEXT = {
    "C08": {
        "level": "Exploration: generated resource sets (pools in every address notation from a small colliding v4/v6 space, nodes with internal IPs, L2/BGP advertisements with names/selectors/aggregation lengths/localprefs/peer lists) are parsed by the real config.For; every accepted configuration is compared with the harness's own netip interval arithmetic and selector evaluation (exact address sets, pairwise disjointness, node IPs, advertisement attachment, aggregate containment, localpref collisions).",
        "design_ref": "DESIGN.md section 9",
        "note": "Trusted: the harness's interval arithmetic; an IPv4-mapped spelling denotes the IPv4 address; only the notations of the generator grammar are judged. Rejections are not judged (the property speaks about accepted configurations).",
        "technique": "property-based testing: generated configurations vs an independent closed-form specification (rapid)",
    },
    "C18": {
        "level": "Exploration: generated cluster snapshots (valid and deliberately invalid, >=3 objects per kind, several pools pinned to one namespace) are converted by the real toConfig for the original order, 1..4 random permutations of every listed kind, and 1..3 repetitions; results are compared with reflect.DeepEqual as the reconcilers do; acceptance must agree as well.",
        "design_ref": "DESIGN.md section 19",
        "note": "Trusted: reflect.DeepEqual is the reconcilers' notion of 'unchanged'.",
        "technique": "property-based testing: metamorphic relation under permutation and repetition (rapid)",
    },
    "C16": {
        "level": "Exploration: tens of thousands (quick) to millions (thorough) of generated messages per run are encoded by the real sendOpen/sendUpdate/sendWithdraw/sendKeepalive and read back by an independent RFC 4271 decoder; generated and mutated OPEN byte strings are fed to the real readOpen through a counting reader; the thorough tier adds a coverage-guided native fuzz campaign with the same oracle. It samples the input space, it does not exhaust it.",
        "design_ref": "DESIGN.md section 17",
        "note": "Trusted: the harness's own RFC 4271 decoder; next hop is the 4-byte IPv4 address connect() obtains; trailing host bits of an NLRI are irrelevant.",
        "technique": "property-based testing: round trip through an independent decoder + mutation fuzzing of readOpen (rapid, go native fuzz)",
    },
}

NOT_APPLICABLE = {
    "C01": "check not built yet (work in progress; see DESIGN.md for the planned generated-input check)",
    "C02": "check not built yet (work in progress; see DESIGN.md for the planned generated-input check)",
    "C03": "check not built yet (work in progress; see DESIGN.md for the planned generated-input check)",
    "C04": "check not built yet (work in progress; see DESIGN.md for the planned generated-input check)",
    "C05": "check not built yet (work in progress; see DESIGN.md for the planned generated-input check)",
    "C06": "check not built yet (work in progress; see DESIGN.md for the planned generated-input check)",
    "C07": "check not built yet (work in progress; see DESIGN.md for the planned generated-input check)",
    "C09": "check not built yet (work in progress; see DESIGN.md for the planned generated-input check)",
    "C10": "check not built yet (work in progress; see DESIGN.md for the planned generated-input check)",
    "C11": "check not built yet (work in progress; see DESIGN.md for the planned generated-input check)",
    "C12": "check not built yet (work in progress; see DESIGN.md for the planned generated-input check)",
    "C13": "check not built yet (work in progress; see DESIGN.md for the planned generated-input check)",
    "C14": "check not built yet (work in progress; see DESIGN.md for the planned generated-input check)",
    "C15": "check not built yet (work in progress; see DESIGN.md for the planned generated-input check)",
    "C17": "check not built yet (work in progress; see DESIGN.md for the planned generated-input check)",
    "C19": "check not built yet (work in progress; see DESIGN.md for the planned generated-input check)",
    "C20": "check not built yet (work in progress; see DESIGN.md for the planned generated-input check)"
}
