#!/usr/bin/env python3
"""Regenerates MANIFEST.json from engines.py + manifest_text.py (keeps it valid by construction)."""
import json, os, sys
sys.path.insert(0, os.path.dirname(os.path.abspath(__file__)))
from engines import PROPS
from manifest_text import TEXT, NOT_APPLICABLE

checks = []
for pid in sorted(PROPS):
    t = TEXT[pid]
    checks.append({
        "property_id": pid,
        "quick_cmd": "./check %s --tier quick" % pid,
        "thorough_cmd": "./check %s --tier thorough" % pid,
        "evidence_file": "/verif/evidence/%s.json" % pid,
        "replay_cmd_template": "./check %s --replay {path}" % pid,
        "engine": "rapid-overlay",
        "level_claimed": {"category": "exploration", "text": t["level"], "design_ref": t["design_ref"]},
        "level_note": t["note"],
        "technique": t["technique"],
    })
m = {
    "version": 1,
    "setup_cmd": "./check --setup",
    "hooks": {
        "guard": "verif",
        "enable": "go test -overlay /verif/work/inv/<id>-<pid>/overlay/overlay.json -tags verif: harness files (zz_verif_*_test.go, the overlay-only packages internal/verifworld and internal/verifcfg, four tag-guarded non-test helpers: internal/layer2/zz_verif_hooks.go, internal/bgp/frr/zz_verif_interp.go, internal/k8s/zz_verif_wiring.go and internal/k8s/controllers/zz_verif_filters.go, and a docker-less TestMain for internal/bgp/frr) are injected by overlay from /verif/harness; no hook is committed in /repo",
        "baseline_off_cmd": "for m in $(cat /w/out/gomods.txt); do MF=$(cd /repo/$m && . /w/out/goenv.sh && gomodflag); (cd /repo/$m && go test $MF -json -vet=off -count=1 -timeout 25m ./...); done",
        "source_commits": [],
        "add_only": True,
    },
    "engines": [{"name": "rapid-overlay", "path": "/verif/check", "serves_properties": sorted(PROPS),
                 "kind_free_text": "property-based testing (pgregory.net/rapid v1.3.0 generators + shrinking, native go fuzzing in the thorough tier) of the real packages; white-box harnesses injected with go test -overlay"}],
    "checks": checks,
    "not_applicable": [{"property_id": k, "reason": v} for k, v in sorted(NOT_APPLICABLE.items()) if k not in PROPS],
    "notes": "All checks decide by generated-input search against an explicit oracle (see DESIGN.md). Exit 2 = inconclusive (build failure/timeout), never reported as a violation. Known findings: /verif/known_findings.json.",
}
json.dump(m, open(os.path.join(os.path.dirname(os.path.abspath(__file__)), "MANIFEST.json"), "w"), indent=1)
print("MANIFEST.json: %d checks, %d not_applicable" % (len(checks), len(m["not_applicable"])))
